(* Parser.depth (s_depth) and Parser::nested.

   (i)   [depth_restored]: every production returns, at Ok AND at Err, a state
         with the s_depth it was entered with (all nine fields of
         [parsers_at d], the entry points; any other production through its
         L_ lemma and [depth_Good]).
   (ii)  [nested_body_bounded] / [hub_bodies_bounded]: the body of a recursion
         hub runs only on states with 1 <= s_depth <= MAX_NESTING, whatever the
         depth at entry; [depth_bound_Good]: started at s_depth <= MAX_NESTING
         everything returns at s_depth <= MAX_NESTING.  The only state with
         s_depth = MAX_NESTING + 1 is the transient one inside a hub that fails
         at once.
   (iii) the call graph of the nine mutually recursive fields ([calls],
         [calls_sound]: field f of [step self] is a function of the fields
         [calls f] of [self] only).  [every_cycle_has_a_hub_or_is_binary]: every
         cycle contains one of the five hubs, except the self-loop
         k_binary -> k_binary, which climbs the precedence
         ([binary_calls_higher_prec], at most 6 entries).  [hub_free_chain_bound]:
         between two hub entries at most 7 non-hub fields are entered.
         [hubs_cut_cycles]: 7 unfoldings determine the non-hub fields from the
         hub fields alone. *)
From Coq Require Import List Bool Arith Lia.
From GoSyn Require Import Token Tok Ast Core.
From GoSyn.proofs Require Import Lift.
Import ListNotations.

Section Depth.
Variables (A G D C E : Type) (OPS : ops A G D C).
Notation pstate := (Core.pstate A G D E).
Notation res := (Core.res A G D E).
Notation parsers := (Core.parsers A G D C E).
Notation nodeT := (node A C).

(* ------------------------------------------------------------ (i) *)

Definition DInv (n : nat) (s : pstate) : Prop := s_depth s = n.

Ltac prim_depth :=
  repeat match goal with
         | |- context [match ?x with _ => _ end] => destruct x
         end; cbn; auto.

Lemma depth_inv_closed : inv_closed OPS DInv DInv (fun n => n) (fun n => n) S.
Proof.
  unfold DInv. split; cbn; auto.
  - intros k s H. rewrite H. reflexivity.
  - intros k s H. rewrite H. reflexivity.
  - intros k s c s'. unfold drain. destruct (d_drain OPS (s_d s)). intros [= _ <-] H. exact H.
  - intros k s H. unfold next. prim_depth.
  - intros k s0 s _ H. unfold goback, preback. prim_depth.
  - intros c k s H. unfold line_end_comment. prim_depth.
Qed.

Theorem depth_Good d : Good DInv DInv (parsers_at OPS d).
Proof. apply (lift_Good _ _ _ _ _ OPS _ _ _ _ _ _ depth_inv_closed). auto. Qed.

Notation dpres p := (forall k s, DInv k s -> post (DInv k) (DInv k) (p s)).

Definition restores_depth {X} (p : pstate -> res X) : Prop :=
  forall s, match p s with
            | Ok _ s' => s_depth s' = s_depth s
            | Err _ s' => s_depth s' = s_depth s
            | _ => True
            end.

Lemma restores_of_pres X (p : pstate -> res X) : dpres p -> restores_depth p.
Proof. intros H s. exact (H (s_depth s) s eq_refl). Qed.

Lemma restores_depth_ok X (p : pstate -> res X) s x s' :
  restores_depth p -> p s = Ok x s' -> s_depth s' = s_depth s.
Proof. intros H Hp. specialize (H s). rewrite Hp in H. exact H. Qed.
Lemma restores_depth_err X (p : pstate -> res X) s e s' :
  restores_depth p -> p s = Err e s' -> s_depth s' = s_depth s.
Proof. intros H Hp. specialize (H s). rewrite Hp in H. exact H. Qed.

Theorem depth_restored d :
  let P := parsers_at OPS d in
  restores_depth (k_type P) /\ restores_depth (k_type_or_none P) /\ restores_depth (k_expr P) /\
  restores_depth (k_unary P) /\ (forall p prec, restores_depth (k_binary P p prec)) /\
  restores_depth (k_litvalue P) /\ restores_depth (k_block P) /\ restores_depth (k_stmt P) /\
  restores_depth (k_if P) /\
  restores_depth (parse_file OPS P) /\ restores_depth (entry_expression OPS P) /\
  restores_depth (entry_stmt OPS P).
Proof.
  intros P. destruct (depth_Good d).
  repeat apply conj; try intros p prec; apply restores_of_pres; auto.
  - eapply L_parse_file; [ exact depth_inv_closed | apply depth_Good ].
  - eapply L_entry_expression; [ exact depth_inv_closed | apply depth_Good ].
  - eapply L_entry_stmt; [ exact depth_inv_closed | apply depth_Good ].
Qed.

Corollary depth_restored_parse_file d (s : pstate) x s' :
  parse_file OPS (parsers_at OPS d) s = Ok x s' -> s_depth s' = s_depth s.
Proof. apply restores_depth_ok, (depth_restored d). Qed.
Corollary depth_restored_parse_file_err d (s : pstate) e s' :
  parse_file OPS (parsers_at OPS d) s = Err e s' -> s_depth s' = s_depth s.
Proof. apply restores_depth_err, (depth_restored d). Qed.
Corollary depth_restored_expression d (s : pstate) x s' :
  entry_expression OPS (parsers_at OPS d) s = Ok x s' -> s_depth s' = s_depth s.
Proof. apply restores_depth_ok, (depth_restored d). Qed.
Corollary depth_restored_expression_err d (s : pstate) e s' :
  entry_expression OPS (parsers_at OPS d) s = Err e s' -> s_depth s' = s_depth s.
Proof. apply restores_depth_err, (depth_restored d). Qed.
Corollary depth_restored_stmt d (s : pstate) x s' :
  entry_stmt OPS (parsers_at OPS d) s = Ok x s' -> s_depth s' = s_depth s.
Proof. apply restores_depth_ok, (depth_restored d). Qed.
Corollary depth_restored_stmt_err d (s : pstate) e s' :
  entry_stmt OPS (parsers_at OPS d) s = Err e s' -> s_depth s' = s_depth s.
Proof. apply restores_depth_err, (depth_restored d). Qed.

(* after parse_file from the initial state no hub is open *)
Corollary parse_file_depth_zero a0 d0 elems (term : sterm A G E) d x s' :
  parse_file OPS (parsers_at OPS d) (init_state a0 d0 elems term) = Ok x s' -> s_depth s' = 0.
Proof. intros H. apply depth_restored_parse_file in H. exact H. Qed.

(* ------------------------------------------------------------ (ii) *)

(* a hub applies its body only to states with 1 <= s_depth <= MAX_NESTING *)
Lemma nested_body_bounded X site (f g : pstate -> res X) s :
  (forall s1, 1 <= s_depth s1 <= MAX_NESTING -> f s1 = g s1) ->
  nested site f s = nested site g s.
Proof.
  intros H. unfold nested. cbv zeta. cbn [s_depth upd_depth].
  destruct (S MAX_NESTING <=? S (s_depth s)) eqn:Hlim; [ reflexivity | ].
  apply Nat.leb_gt in Hlim. rewrite H; [ reflexivity | ]. cbn [s_depth upd_depth]. lia.
Qed.

Definition below_limit {X} (f : pstate -> res X) : pstate -> res X :=
  fun s => if (1 <=? s_depth s) && (s_depth s <=? MAX_NESTING) then f s else Panic 0.

Lemma nested_below_limit X site (f : pstate -> res X) s :
  nested site f s = nested site (below_limit f) s.
Proof.
  apply nested_body_bounded. intros s1 [H1 H2]. unfold below_limit.
  apply Nat.leb_le in H1, H2. rewrite H1, H2. reflexivity.
Qed.

(* the five hubs of [step self]: their bodies could as well refuse to run
   outside 1 .. MAX_NESTING *)
Theorem hub_bodies_bounded self s :
  k_type_or_none (step OPS self) s = nested 140 (below_limit (type_or_none_body OPS self)) s /\
  k_unary (step OPS self) s = nested 141 (below_limit (unary_body OPS self)) s /\
  k_stmt (step OPS self) s = nested 142 (below_limit (stmt_body OPS self)) s /\
  k_if (step OPS self) s = nested 143 (below_limit (if_body OPS self)) s /\
  k_litvalue (step OPS self) s = nested 144 (below_limit (lit_value_body OPS self)) s.
Proof.
  cbn [step k_type_or_none k_unary k_stmt k_if k_litvalue].
  repeat split; apply nested_below_limit.
Qed.

(* a hub entered at the limit fails at once and leaves the depth alone *)
Lemma nested_at_limit X site (f : pstate -> res X) s :
  MAX_NESTING <= s_depth s ->
  exists e s', nested site f s = Err e s' /\ s_depth s' = s_depth s.
Proof.
  intros H. unfold nested. cbv zeta. cbn [s_depth upd_depth].
  destruct (S MAX_NESTING <=? S (s_depth s)) eqn:Hlim.
  - eexists _, _. split; reflexivity.
  - apply Nat.leb_gt in Hlim. lia.
Qed.

(* the bound as an invariant: depth n <= MAX_NESTING at entry, the same n at
   every return; inside a hub body the ghost is S n, and S n <= MAX_NESTING *)
Definition BInv (n : nat) (s : pstate) : Prop := s_depth s = n /\ n <= MAX_NESTING.

Lemma depth_bound_inv_closed : inv_closed OPS BInv BInv (fun n => n) (fun n => n) S.
Proof.
  pose proof depth_inv_closed as HD. unfold BInv.
  (* everything that does not touch s_depth is solved up to conversion *)
  split; try (intros; assumption).
  - intros k s Hlt [H1 H2]. split; [ apply (ic_dinc HD); assumption | unfold DInv in H1; lia ].
  - intros k s [H1 H2]. split; [ apply (ic_ddec HD), H1 | lia ].
  - intros k s [H1 H2]. split; [ apply (ic_ddecE HD), H1 | lia ].
  - intros k s c s' Hd [H1 H2]. split; [ eapply (ic_drain HD); eassumption | exact H2 ].
  - intros k s [H1 H2]. pose proof (ic_next HD k s H1) as Hp.
    destruct (next OPS s); simpl in *; auto.
  - intros k s0 s [H0 _] [H1 H2]. pose proof (ic_goback HD k s0 s H0 H1) as Hp.
    destruct (goback OPS (preback s0) s); simpl in *; auto.
  - intros c k s [H1 H2]. pose proof (ic_line_end HD c k s H1) as Hp.
    destruct (line_end_comment OPS c s); simpl in *; auto.
Qed.

Theorem depth_bound_Good d : Good BInv BInv (parsers_at OPS d).
Proof. apply (lift_Good _ _ _ _ _ OPS _ _ _ _ _ _ depth_bound_inv_closed). auto. Qed.

Definition keeps_bound {X} (p : pstate -> res X) : Prop :=
  forall s, s_depth s <= MAX_NESTING ->
            match p s with
            | Ok _ s' => s_depth s' <= MAX_NESTING
            | Err _ s' => s_depth s' <= MAX_NESTING
            | _ => True
            end.

Lemma keeps_of_restores X (p : pstate -> res X) : restores_depth p -> keeps_bound p.
Proof. intros H s Hs. specialize (H s). destruct (p s); auto; lia. Qed.

Theorem depth_bounded d :
  let P := parsers_at OPS d in
  keeps_bound (k_type P) /\ keeps_bound (k_type_or_none P) /\ keeps_bound (k_expr P) /\
  keeps_bound (k_unary P) /\ (forall p prec, keeps_bound (k_binary P p prec)) /\
  keeps_bound (k_litvalue P) /\ keeps_bound (k_block P) /\ keeps_bound (k_stmt P) /\
  keeps_bound (k_if P) /\
  keeps_bound (parse_file OPS P) /\ keeps_bound (entry_expression OPS P) /\
  keeps_bound (entry_stmt OPS P).
Proof.
  intros P. destruct (depth_restored d) as (H1&H2&H3&H4&H5&H6&H7&H8&H9&H10&H11&H12).
  repeat apply conj; try intros p prec; apply keeps_of_restores; auto.
Qed.

(* ------------------------------------------------------------ (iii) the call graph:
   field f of [step self] is a function of these fields of [self] only
   (hubs marked #):
       k_type          <- k_type_or_none#
       k_type_or_none# <- k_type, k_type_or_none#, k_expr
       k_expr          <- k_binary
       k_unary#        <- k_type, k_type_or_none#, k_expr, k_unary#, k_litvalue#, k_block
       k_binary        <- k_unary#, k_binary      (at a strictly higher precedence)
       k_litvalue#     <- k_expr, k_litvalue#
       k_block         <- k_stmt#
       k_stmt#         <- k_type, k_type_or_none#, k_expr, k_binary, k_litvalue#, k_block,
                          k_stmt#, k_if#
       k_if#           <- k_expr, k_block, k_stmt#, k_if#
   Each lemma is checked by conversion: a missing dependency makes it fail. *)

Section CallGraph.
Variables P Q : parsers.

Lemma dep_type :
  k_type_or_none P = k_type_or_none Q -> k_type (step OPS P) = k_type (step OPS Q).
Proof. destruct P, Q. cbn. intros ->. reflexivity. Qed.

Lemma dep_block : k_stmt P = k_stmt Q -> k_block (step OPS P) = k_block (step OPS Q).
Proof. destruct P, Q. cbn. intros ->. reflexivity. Qed.

Lemma dep_expr : k_binary P = k_binary Q -> k_expr (step OPS P) = k_expr (step OPS Q).
Proof. destruct P, Q. cbn. intros ->. reflexivity. Qed.

Lemma dep_binary :
  k_unary P = k_unary Q -> k_binary P = k_binary Q ->
  k_binary (step OPS P) = k_binary (step OPS Q).
Proof. destruct P, Q. cbn. intros -> ->. reflexivity. Qed.

Lemma dep_litvalue :
  k_expr P = k_expr Q -> k_litvalue P = k_litvalue Q ->
  k_litvalue (step OPS P) = k_litvalue (step OPS Q).
Proof. destruct P, Q. cbn. intros -> ->. reflexivity. Qed.

Lemma dep_type_or_none :
  k_type P = k_type Q -> k_type_or_none P = k_type_or_none Q -> k_expr P = k_expr Q ->
  k_type_or_none (step OPS P) = k_type_or_none (step OPS Q).
Proof. destruct P, Q. cbn. intros -> -> ->. reflexivity. Qed.

Lemma dep_unary :
  k_type P = k_type Q -> k_type_or_none P = k_type_or_none Q -> k_expr P = k_expr Q ->
  k_unary P = k_unary Q -> k_litvalue P = k_litvalue Q -> k_block P = k_block Q ->
  k_unary (step OPS P) = k_unary (step OPS Q).
Proof. destruct P, Q. cbn. intros -> -> -> -> -> ->. reflexivity. Qed.

Lemma dep_stmt :
  k_type P = k_type Q -> k_type_or_none P = k_type_or_none Q -> k_expr P = k_expr Q ->
  k_binary P = k_binary Q -> k_litvalue P = k_litvalue Q -> k_block P = k_block Q ->
  k_stmt P = k_stmt Q -> k_if P = k_if Q ->
  k_stmt (step OPS P) = k_stmt (step OPS Q).
Proof. destruct P, Q. cbn. intros -> -> -> -> -> -> -> ->. reflexivity. Qed.

Lemma dep_if :
  k_expr P = k_expr Q -> k_block P = k_block Q -> k_stmt P = k_stmt Q -> k_if P = k_if Q ->
  k_if (step OPS P) = k_if (step OPS Q).
Proof. destruct P, Q. cbn. intros -> -> -> ->. reflexivity. Qed.

(* the k_binary -> k_binary edge goes to a strictly higher precedence ... *)
Lemma binary_loop_higher_prec prec :
  (forall p' prec' s', prec < prec' -> k_binary P p' prec' s' = k_binary Q p' prec' s') ->
  forall fuel x s, binary_loop OPS P fuel prec x s = binary_loop OPS Q fuel prec x s.
Proof.
  intros Hhi. induction fuel as [|fuel IH]; intros x s; [ reflexivity | ].
  cbn [binary_loop].
  destruct (s_cur s) as [[pos [?|?|op|? ?]]|]; try reflexivity.
  destruct (prec <? prec_nat op) eqn:Hlt; [ | reflexivity ].
  apply Nat.ltb_lt in Hlt.
  destruct (next OPS s) as [[] s1| | |]; cbn [bind]; try reflexivity.
  rewrite (Hhi None _ s1 Hlt).
  destruct (k_binary Q None (prec_nat op) s1); cbn [bind]; auto.
Qed.

Lemma binary_calls_higher_prec p prec s :
  k_unary P = k_unary Q ->
  (forall p' prec' s', prec < prec' -> k_binary P p' prec' s' = k_binary Q p' prec' s') ->
  k_binary (step OPS P) p prec s = k_binary (step OPS Q) p prec s.
Proof.
  intros HU Hhi. cbn [step k_binary]. unfold binary_body. rewrite HU.
  destruct (match p with Some e => Ok e s | None => k_unary Q s end); cbn [bind]; try reflexivity.
  apply binary_loop_higher_prec, Hhi.
Qed.

End CallGraph.

(* ... and there is no precedence above 5: from precedence 5 on, k_binary does
   not call k_binary at all; so a chain of k_binary calls that passes no hub is
   at most 6 long *)
Lemma prec_nat_le5 op : prec_nat op <= 5.
Proof. destruct op; cbn; lia. Qed.

Lemma binary_loop_top_prec (P Q : parsers) prec :
  5 <= prec ->
  forall fuel x s, binary_loop OPS P fuel prec x s = binary_loop OPS Q fuel prec x s.
Proof.
  intros Hp. induction fuel as [|fuel IH]; intros x s; [ reflexivity | ].
  cbn [binary_loop].
  destruct (s_cur s) as [[pos [?|?|op|? ?]]|]; try reflexivity.
  pose proof (prec_nat_le5 op) as Hop.
  destruct (prec <? prec_nat op) eqn:Hlt; [ | reflexivity ].
  apply Nat.ltb_lt in Hlt. lia.
Qed.

Corollary binary_top_prec (P Q : parsers) p prec s :
  5 <= prec -> k_unary P = k_unary Q ->
  k_binary (step OPS P) p prec s = k_binary (step OPS Q) p prec s.
Proof.
  intros Hp HU. cbn [step k_binary]. unfold binary_body. rewrite HU.
  destruct (match p with Some e => Ok e s | None => k_unary Q s end); cbn [bind]; try reflexivity.
  apply binary_loop_top_prec, Hp.
Qed.

(* the k_litvalue -> k_litvalue edge is behind inc_level, which refuses at
   expr_level = MAX_DEPTH *)
Lemma inc_level_bound (s : pstate) site s' :
  inc_level s site = Ok tt s' -> s_lp s' < s_ln s' + S MAX_DEPTH /\ s_lp s' = S (s_lp s) /\
                                 s_ln s' = s_ln s.
Proof.
  unfold inc_level. cbv zeta. cbn [s_lp s_ln upd_level].
  destruct (s_ln s + S MAX_DEPTH <=? S (s_lp s)) eqn:H; [ discriminate | ].
  intros [= <-]. apply Nat.leb_gt in H. cbn [s_lp s_ln upd_level]. lia.
Qed.

(* ------------------------------------------------------------ the graph as data *)

Inductive field : Set :=
| FType | FTypeOrNone | FExpr | FUnary | FBinary | FLitvalue | FBlock | FStmt | FIf.

Definition field_eq_dec (f g : field) : {f = g} + {f <> g}.
Proof. decide equality. Defined.

(* the fields wrapped in Parser::nested by [step] *)
Definition hub (f : field) : bool :=
  match f with
  | FTypeOrNone | FUnary | FLitvalue | FStmt | FIf => true
  | FType | FExpr | FBinary | FBlock => false
  end.

(* which fields of [self] the body of field f of [step self] may call *)
Definition calls (f : field) : list field :=
  match f with
  | FType => [FTypeOrNone]
  | FTypeOrNone => [FType; FTypeOrNone; FExpr]
  | FExpr => [FBinary]
  | FUnary => [FType; FTypeOrNone; FExpr; FUnary; FLitvalue; FBlock]
  | FBinary => [FUnary; FBinary]
  | FLitvalue => [FExpr; FLitvalue]
  | FBlock => [FStmt]
  | FStmt => [FType; FTypeOrNone; FExpr; FBinary; FLitvalue; FBlock; FStmt; FIf]
  | FIf => [FExpr; FBlock; FStmt; FIf]
  end.

Definition agree (f : field) (P Q : parsers) : Prop :=
  match f with
  | FType => k_type P = k_type Q
  | FTypeOrNone => k_type_or_none P = k_type_or_none Q
  | FExpr => k_expr P = k_expr Q
  | FUnary => k_unary P = k_unary Q
  | FBinary => k_binary P = k_binary Q
  | FLitvalue => k_litvalue P = k_litvalue Q
  | FBlock => k_block P = k_block Q
  | FStmt => k_stmt P = k_stmt Q
  | FIf => k_if P = k_if Q
  end.

(* [calls] is the call graph of [step]: *)
Theorem calls_sound f P Q :
  (forall g, In g (calls f) -> agree g P Q) -> agree f (step OPS P) (step OPS Q).
Proof.
  intros H.
  assert (Hg : forall g, (if in_dec field_eq_dec g (calls f) then True else False) -> agree g P Q).
  { intros g Hin. apply H. destruct (in_dec field_eq_dec g (calls f)); [ assumption | contradiction ]. }
  destruct f; cbn [agree].
  - apply dep_type; apply (Hg FTypeOrNone I).
  - apply dep_type_or_none; [ apply (Hg FType I) | apply (Hg FTypeOrNone I) | apply (Hg FExpr I) ].
  - apply dep_expr; apply (Hg FBinary I).
  - apply dep_unary; [ apply (Hg FType I) | apply (Hg FTypeOrNone I) | apply (Hg FExpr I)
                     | apply (Hg FUnary I) | apply (Hg FLitvalue I) | apply (Hg FBlock I) ].
  - apply dep_binary; [ apply (Hg FUnary I) | apply (Hg FBinary I) ].
  - apply dep_litvalue; [ apply (Hg FExpr I) | apply (Hg FLitvalue I) ].
  - apply dep_block; apply (Hg FStmt I).
  - apply dep_stmt; [ apply (Hg FType I) | apply (Hg FTypeOrNone I) | apply (Hg FExpr I)
                    | apply (Hg FBinary I) | apply (Hg FLitvalue I) | apply (Hg FBlock I)
                    | apply (Hg FStmt I) | apply (Hg FIf I) ].
  - apply dep_if; [ apply (Hg FExpr I) | apply (Hg FBlock I) | apply (Hg FStmt I)
                  | apply (Hg FIf I) ].
Qed.

(* a chain of calls f0 -> f1 -> ... *)
Fixpoint chain (l : list field) : Prop :=
  match l with
  | f :: (g :: _) as r => In g (calls f) /\ chain r
  | _ => True
  end.

Definition rank (f : field) : nat :=
  match f with FExpr => 2 | FBinary => 1 | _ => 0 end.

(* checked by computation on the 81 pairs *)
Lemma hub_free_edge f g :
  In g (calls f) -> hub f = false -> hub g = false ->
  rank g < rank f \/ (f = FBinary /\ g = FBinary).
Proof.
  destruct f; try discriminate; destruct g; try discriminate; cbn;
    intros H _ _; auto; intuition discriminate.
Qed.

Lemma hub_free_chain_rank l : forall f h,
  chain (f :: l ++ [h]) -> (forall g, In g (f :: l ++ [h]) -> hub g = false) ->
  rank h <= rank f /\
  (rank h = rank f -> forall g, In g (f :: l ++ [h]) -> g = FBinary).
Proof.
  induction l as [|g l IH]; intros f h Hc Hn.
  - cbn [app] in *. destruct Hc as [He _].
    destruct (hub_free_edge f h He) as [Hlt | [-> ->]]; try (apply Hn; cbn; auto).
    + split; [ lia | intros; lia ].
    + split; [ lia | ]. intros _ g [<- | [<- | []]]; reflexivity.
  - change (chain (f :: g :: l ++ [h])) in Hc. destruct Hc as [He Hc].
    destruct (IH g h Hc) as [Hle Heq]; [ intros; apply Hn; right; assumption | ].
    destruct (hub_free_edge f g He) as [Hlt | [-> ->]];
      try (apply Hn; cbn; auto).
    + split; [ lia | intros; lia ].
    + split; [ exact Hle | ]. intros Hr x [<- | Hx]; [ reflexivity | apply Heq; assumption ].
Qed.

Theorem every_cycle_has_a_hub_or_is_binary f l :
  chain (f :: l ++ [f]) ->
  (exists g, In g (f :: l) /\ hub g = true) \/ (forall g, In g (f :: l) -> g = FBinary).
Proof.
  intros Hc. destruct (existsb hub (f :: l)) eqn:Hex.
  - left. apply existsb_exists in Hex. exact Hex.
  - right. assert (Hn : forall g, In g (f :: l ++ [f]) -> hub g = false).
    { intros g Hg. destruct (hub g) eqn:Hh; [ | reflexivity ].
      assert (Hin : In g (f :: l)).
      { destruct Hg as [<- | Hg]; [ left; reflexivity | ].
        apply in_app_or in Hg as [Hg | [<- | []]]; [ right; assumption | left; reflexivity ]. }
      assert (existsb hub (f :: l) = true) by (apply existsb_exists; eauto). congruence. }
    destruct (hub_free_chain_rank l f f Hc Hn) as [_ Heq].
    intros g Hg. apply Heq; [ reflexivity | ].
    destruct Hg as [<- | Hg]; [ left; reflexivity | right; apply in_or_app; left; assumption ].
Qed.

(* after k_binary only k_binary can follow without a hub *)
Lemma hub_free_after_binary l :
  chain (FBinary :: l) -> (forall g, In g l -> hub g = false) -> forall g, In g l -> g = FBinary.
Proof.
  induction l as [|h l IH]; intros Hc Hn g Hg; [ destruct Hg | ].
  destruct Hc as [He Hc]. assert (h = FBinary) as ->.
  { specialize (Hn h (or_introl eq_refl)). cbn in He. intuition (subst; try discriminate; auto). }
  destruct Hg as [<- | Hg]; [ reflexivity | ].
  apply IH; auto. intros; apply Hn; right; assumption.
Qed.

Lemma count_all_binary l : (forall g, In g l -> g = FBinary) -> count_occ field_eq_dec l FBinary = length l.
Proof.
  induction l as [|h l IH]; intros H; [ reflexivity | ].
  rewrite (H h (or_introl eq_refl)). cbn. rewrite IH; [ reflexivity | ].
  intros; apply H; right; assumption.
Qed.

(* The frame bound.  A chain of field entries that passes no hub is
   [k_type], [k_block], or [k_expr] followed by k_binary's; by
   [binary_calls_higher_prec] at most 6 k_binary's follow one another
   (precedences 0 .. 5), so at most 7 non-hub fields are entered between two
   consecutive hub entries. *)
Theorem hub_free_chain_bound l :
  chain l -> (forall g, In g l -> hub g = false) ->
  length l <= 1 + count_occ field_eq_dec l FBinary.
Proof.
  destruct l as [|f [|g l]]; intros Hc Hn; [ cbn; lia | cbn; lia | ].
  destruct Hc as [He Hc].
  assert (g = FBinary) as ->.
  { pose proof (Hn f (or_introl eq_refl)) as Hf. pose proof (Hn g (or_intror (or_introl eq_refl))) as Hg.
    destruct f; try discriminate; cbn in He; intuition (subst; try discriminate; auto). }
  assert (Hall : forall x, In x (FBinary :: l) -> x = FBinary).
  { intros x [<- | Hx]; [ reflexivity | ].
    apply (hub_free_after_binary l Hc); [ intros; apply Hn; right; right; assumption | assumption ]. }
  pose proof (count_all_binary _ Hall) as Hcnt.
  set (r := FBinary :: l) in *. cbn [length count_occ].
  destruct (field_eq_dec f FBinary); lia.
Qed.

Corollary hub_free_chain_le7 l :
  chain l -> (forall g, In g l -> hub g = false) ->
  count_occ field_eq_dec l FBinary <= 6 -> length l <= 7.
Proof. intros Hc Hn Hb. pose proof (hub_free_chain_bound l Hc Hn). lia. Qed.

(* ------------------------------------------------------------ the same, semantically:
   cut the recursion at the hubs and a constant number of unfoldings is enough *)

Fixpoint steps (n : nat) (P : parsers) : parsers :=
  match n with
  | O => P
  | S m => step OPS (steps m P)
  end.

(* k_binary after n+1 unfoldings, at precedence >= 5 - n, is determined by k_unary *)
Lemma binary_unfold n : forall P Q,
  (forall i, i <= n -> k_unary (steps i P) = k_unary (steps i Q)) ->
  forall p prec s, 5 <= prec + n ->
  k_binary (steps (S n) P) p prec s = k_binary (steps (S n) Q) p prec s.
Proof.
  induction n as [|n IH]; intros P Q HU p prec s Hp.
  - cbn [steps]. apply binary_top_prec; [ lia | apply (HU 0); lia ].
  - change (steps (S (S n)) P) with (step OPS (steps (S n) P)).
    change (steps (S (S n)) Q) with (step OPS (steps (S n) Q)).
    apply binary_calls_higher_prec; [ apply HU; lia | ].
    intros p' prec' s' Hlt. apply IH; [ intros; apply HU; lia | lia ].
Qed.

(* the k_binary self-loop is at most 6 deep *)
Corollary binary_six_unfoldings P Q :
  (forall i, i <= 5 -> k_unary (steps i P) = k_unary (steps i Q)) ->
  forall p prec s, k_binary (steps 6 P) p prec s = k_binary (steps 6 Q) p prec s.
Proof. intros HU p prec s. apply (binary_unfold 5); [ exact HU | lia ]. Qed.

Definition hubs_agree (P Q : parsers) : Prop :=
  k_type_or_none P = k_type_or_none Q /\ k_unary P = k_unary Q /\
  k_litvalue P = k_litvalue Q /\ k_stmt P = k_stmt Q /\ k_if P = k_if Q.

(* With the five hubs given, 7 unfoldings determine the four non-hub fields,
   whatever the non-hub fields of the tables one starts from: no recursion
   survives once the hubs are cut. *)
Theorem hubs_cut_cycles P Q :
  (forall i, i <= 6 -> hubs_agree (steps i P) (steps i Q)) ->
  k_type (steps 7 P) = k_type (steps 7 Q) /\
  k_block (steps 7 P) = k_block (steps 7 Q) /\
  (forall s, k_expr (steps 7 P) s = k_expr (steps 7 Q) s) /\
  (forall p prec s, k_binary (steps 7 P) p prec s = k_binary (steps 7 Q) p prec s).
Proof.
  intros H.
  assert (HU : forall i, i <= 6 -> k_unary (steps i P) = k_unary (steps i Q)).
  { intros i Hi. apply (H i Hi). }
  change (steps 7 P) with (step OPS (steps 6 P)). change (steps 7 Q) with (step OPS (steps 6 Q)).
  repeat apply conj.
  - apply dep_type. apply (H 6); lia.
  - apply dep_block. apply (H 6); lia.
  - intros s. cbn [step k_expr]. unfold expr_body.
    apply binary_six_unfoldings. intros; apply HU; lia.
  - intros p prec s. apply (binary_unfold 6); [ exact HU | lia ].
Qed.

End Depth.

Arguments DInv {A G D E} n s.
Arguments BInv {A G D E} n s.
Arguments restores_depth {A G D E X} p.
Arguments keeps_bound {A G D E X} p.
Arguments below_limit {A G D E X} f s.
Arguments agree {A G D C E} f P Q.
Arguments hubs_agree {A G D C E} P Q.
Arguments steps {A G D C E} OPS n P.
