(* Round trip, stages B-D (spec/Print3.v), base: the contracts of the
   productions over exp2 / elemv / stmt2 / typ2 and the facts shared by the
   per-production files.

   Levels.  expr_level = s_lp - s_ln - 1.  [lev hdr s n]: the parser stands
   directly in an if/for/switch header (hdr = true: expr_level = -1) or not
   (hdr = false: expr_level >= 0), and n more expression levels fit below
   MAX_DEPTH.  [levw s n]: expr_level >= -1 (what a block or a type needs). *)
From Coq Require Import List Arith NArith Lia Bool.
From GoSyn Require Import Token Tok Ast Core.
From GoSyn.spec Require Import Prec Print Print2 Print3.
From GoSyn.proofs Require Import PrecProofs RoundTripProofs RoundTripTypesBase.
Import ListNotations.

Section B2.
Variables (A G D C E : Type).
Variable OPS : ops A G D C.
Notation nodeT := (node A C).
Notation pstateT := (pstate A G D E).
Notation cur := (s_cur A G D E).
Notation srest := (s_rest A G D E).
Notation sdepth := (s_depth A G D E).
Notation lp := (s_lp A G D E).
Notation ln := (s_ln A G D E).
Notation PA := (parsers_at A G D C E OPS).
Notation erase := (@erase A C).
Notation at_toks := (@at_toks A G D E).
Notation frame := (@frame A G D E).

(* ------------------------------------------------------------ levels *)

Definition lev (hdr : bool) (s : pstateT) (n : nat) : Prop :=
  (if hdr then lp s = ln s else ln s < lp s) /\ lp s + n <= ln s + 65.
Definition levw (s : pstateT) (n : nat) : Prop := ln s <= lp s /\ lp s + n <= ln s + 65.

Lemma lev_levw : forall hdr s n, lev hdr s n -> levw s n.
Proof. intros [|] s n (H1 & H2); split; lia. Qed.

Lemma lev_nonneg : forall hdr s n, lev hdr s n -> level_nonneg A G D E s = negb hdr.
Proof.
  intros hdr s n (H1 & _). unfold level_nonneg.
  destruct hdr; cbn [negb].
  - destruct (S (ln s) <=? lp s) eqn:Hq; [apply Nat.leb_le in Hq; lia | reflexivity].
  - destruct (S (ln s) <=? lp s) eqn:Hq; [reflexivity | apply Nat.leb_gt in Hq; lia].
Qed.

Lemma lev_frame : forall hdr s s' n m, frame s s' -> lev hdr s n -> m <= n -> lev hdr s' m.
Proof.
  intros hdr s s' n m (_ & k & Ha & Hb) (H1 & H2) Hm. split; [destruct hdr; lia | lia].
Qed.

Lemma levw_frame : forall s s' n m, frame s s' -> levw s n -> m <= n -> levw s' m.
Proof. intros s s' n m (_ & k & Ha & Hb) (H1 & H2) Hm. split; lia. Qed.

(* one level deeper (parentheses, arguments, indices, blocks, literal values) *)
Lemma levw_inc : forall s n, levw s (S n) ->
  lev false (upd_level A G D E s (S (lp s)) (ln s)) n.
Proof. intros s n (H1 & H2). split; simpl; lia. Qed.

(* ------------------------------------------------------------ measures are positive *)

Lemma me_pos : forall m e, 1 <= me m e.
Proof.
  intro m. fix IH 1. intro e.
  destruct e as [name | k text | e | op e | op l r | f args ddd | e name | e i | e idx
                 | e lo hi mx | t | sg body | ty elems | e t]; cbn [me]; unfold cs, ce;
    try (pose proof (IH e)); try (pose proof (IH f)); try (pose proof (IH ty));
    clear IH; destruct m; lia.
Qed.

Lemma depth2_pos : forall e, 1 <= depth2 e.
Proof. exact (me_pos false). Qed.
Lemma need2_pos : forall e, 1 <= need2 e.
Proof. exact (me_pos true). Qed.

(* ------------------------------------------------------------ follow conditions *)

(* after an operand that is a type: the type must be over, and a func type
   must not be followed by its body *)
Definition opfollow (e : exp2) (rst : list token) : Prop :=
  match e with
  | E2Type ty =>
      tfollow ty rst /\
      match ty, rst with TFunc _, t :: _ => t <> tk OBraceLeft | _, _ => True end
  | _ => True
  end.

(* the expression is not continued by rst as a primary expression *)
Definition prim_follow2 (hdr : bool) (e : exp2) (rst : list token) : Prop :=
  match rst with
  | [] => True
  | t :: _ => postfix3 t = false /\ (t = tk OBraceLeft -> brace_stop hdr e)
  end /\ tyfollow e rst.

(* ... nor as the left operand of a binary operation it does not belong to *)
Definition inner_follow2 (hdr : bool) (e : exp2) (rst : list token) : Prop :=
  prim_follow2 hdr e rst /\
  match rst with
  | [] => True
  | t :: _ => forall op, t = TOperator op -> at_least2 (level op) e
  end.

Lemma follow2_prim : forall hdr p e rst, follow2 hdr p e rst -> prim_follow2 hdr e rst.
Proof.
  intros hdr p e rst (H & Ht). split; [| exact Ht]. destruct rst; [exact I |].
  destruct H as (H1 & H2 & _). split; assumption.
Qed.

(* tokens that close or separate: after them nothing is continued *)
Definition closing (t : token) : bool :=
  match t with
  | TOperator (OSemiColon | OParenRight | OBarackRight | OBraceRight | OComma | OColon
              | ODotDotDot | OInc | ODec) => true
  | TOperator op => is_assign_op op
  | _ => false
  end.

Lemma closing_facts : forall t, closing t = true ->
  postfix3 t = false /\ t <> tk OBraceLeft /\ (forall op, t = TOperator op -> level op = 0) /\
  tok_is t (KOp ODot) = false /\ tok_is t (KOp OBarackLeft) = false /\ type_start t = false.
Proof.
  intros t H. destruct t as [txt | k | op | lk txt]; simpl in H; try discriminate H.
  destruct op; simpl in H; try discriminate H;
    (split; [reflexivity |]; split; [discriminate |];
     split; [intros op' Ho; injection Ho as <-; reflexivity |]; repeat split; reflexivity).
Qed.

Lemma tyfollow_close : forall e t r, closing t = true -> tyfollow e (t :: r).
Proof.
  intros e t r H. destruct (closing_facts t H) as (_ & _ & _ & H1 & H2 & H3).
  unfold tyfollow. destruct (last_prim e); try exact I. apply tfollow_tok; assumption.
Qed.

Lemma follow2_close : forall hdr p e t r, closing t = true -> follow2 hdr p e (t :: r).
Proof.
  intros hdr p e t r H. destruct (closing_facts t H) as (H1 & H2 & H3 & _).
  split; [| apply tyfollow_close; exact H].
  split; [exact H1 |]. split; [intro Hb; exfalso; exact (H2 Hb) |].
  intros op Ho. rewrite (H3 op Ho). lia.
Qed.

Lemma efollow_close : forall hdr e t r, closing t = true -> efollow hdr e (t :: r).
Proof. intros. apply follow2_close. assumption. Qed.

Lemma efollow_nil : forall hdr e, efollow hdr e [].
Proof. intros hdr e. split; [exact I |]. unfold tyfollow. destruct (last_prim e); exact I. Qed.

(* in front of the "{" of a block, in a header *)
Lemma efollow_brace : forall e r, brace_stop true e ->
  match last_prim e with E2Type _ => False | _ => True end \/ tyfollow e (tk OBraceLeft :: r) ->
  efollow true e (tk OBraceLeft :: r).
Proof.
  intros e r Hb Hty. split.
  - split; [reflexivity |]. split; [intros _; exact Hb |].
    intros op Ho. injection Ho as <-. reflexivity.
  - destruct Hty as [H | H]; [| exact H]. unfold tyfollow. destruct (last_prim e); try exact I.
    destruct H.
Qed.

(* ------------------------------------------------------------ expression contracts *)

Notation PNL := (parse_next_level_expr A G D C E).
Notation BB := (binary_body A G D C E OPS).
Notation BL := (binary_loop A G D C E OPS).
Notation PE := (primary_expression A G D C E OPS).
Notation PL := (primary_loop A G D C E OPS).
Notation KU := (k_unary A G D C E).

(* loop forms, as in RoundTripProofs: the left-recursive productions go by induction *)
Definition QP2 (hdr : bool) (e : exp2) : Prop := forall d prec (s : pstateT) rst,
  need2 e <= d -> tighter_than2 prec e -> at_toks s (print2 e ++ rst) -> inner_follow2 hdr e rst ->
  sdepth s + depth2 e <= MAX_NESTING -> lev hdr s (depth2 e) ->
  exists n s1 fuel1,
    erase n = shape2 e /\ at_toks s1 rst /\ frame s s1 /\ length rst + 1 <= fuel1 /\
    BB (PA d) None prec s = BL (PA d) fuel1 prec n s1.

Definition PP2 (hdr : bool) (e : exp2) : Prop := forall d prec (s : pstateT) rst,
  need2 e <= d -> tighter_than2 prec e -> at_toks s (print2 e ++ rst) -> follow2 hdr prec e rst ->
  sdepth s + depth2 e <= MAX_NESTING -> lev hdr s (depth2 e) ->
  exists n s1,
    BB (PA d) None prec s = Ok n s1 /\ erase n = shape2 e /\ at_toks s1 rst /\ frame s s1.

Definition UP2 (hdr : bool) (e : exp2) : Prop := unary_level2 e -> forall d (s : pstateT) rst,
  need2 e <= d -> at_toks s (print2 e ++ rst) -> prim_follow2 hdr e rst ->
  sdepth s + depth2 e <= MAX_NESTING -> lev hdr s (depth2 e) ->
  exists n s1,
    KU (PA d) s = Ok n s1 /\ erase n = shape2 e /\ at_toks s1 rst /\ frame s s1.

Definition PQP2 (hdr : bool) (e : exp2) : Prop := primary2 e -> forall d (s : pstateT) rst,
  need2 e <= S d -> at_toks s (print2 e ++ rst) -> opfollow e rst ->
  sdepth s + depth2 e <= S MAX_NESTING -> lev hdr s (depth2 e) ->
  exists n s1 fuel1,
    erase n = shape2 e /\ at_toks s1 rst /\ frame s s1 /\ length rst + 1 <= fuel1 /\
    PE (PA d) None s = PL (PA d) fuel1 n s1.

(* Parser::expression in context *)
Definition KE2 (hdr : bool) (e : exp2) : Prop := forall d (s : pstateT) rst,
  need2 e + 2 <= d -> at_toks s (print2 e ++ rst) -> efollow hdr e rst ->
  sdepth s + depth2 e <= MAX_NESTING -> lev hdr s (depth2 e) ->
  exists n s1, k_expr A G D C E (PA d) s = Ok n s1 /\ erase n = shape2 e /\
               at_toks s1 rst /\ frame s s1.

(* an expression one level deeper: "(" e ")", arguments, indices *)
Definition PNLP2 (e : exp2) : Prop := forall d (s : pstateT) rst,
  need2 e + 2 <= d -> at_toks s (print2 e ++ rst) -> efollow false e rst ->
  sdepth s + depth2 e <= MAX_NESTING -> levw s (S (depth2 e)) ->
  exists n s1, PNL (PA d) s = Ok n s1 /\ erase n = shape2 e /\ at_toks s1 rst /\ frame s s1.

Lemma KE2_PNLP2 : forall e, KE2 false e -> PNLP2 e.
Proof.
  intros e HK d s rst Hd Hat Hfo Hdep Hlev. pose proof (depth2_pos e) as Hdp.
  unfold parse_next_level_expr. rewrite (inc_level_ok s 10) by (destruct Hlev; lia). cbn [bind].
  set (s0 := upd_level A G D E s (S (lp s)) (ln s)).
  destruct (HK d s0 rst) as (n & s1 & Hk & He & Hat1 & Hf1); try assumption.
  - apply levw_inc. exact Hlev.
  - rewrite Hk. exists n, (dec_level A G D E s1).
    split; [reflexivity |]. split; [exact He |]. split; [exact Hat1 |].
    apply frame_inc_dec. exact Hf1.
Qed.

(* the tag of a type switch  x.(type) *)
Definition KE2G (hdr : bool) (x : exp2) : Prop := KE2 hdr (guard_of x).

(* ------------------------------------------------------------ expression lists *)

Definition list_follow (rst : list token) : Prop :=
  match rst with [] => True | t :: _ => closing t = true /\ tok_is t (KOp OComma) = false end.

Definition etail (l : list exp2) : list token := flat_map (fun e => tk OComma :: print2 e) l.

Lemma commas_cons2 : forall e r, commas (map print2 (e :: r)) = print2 e ++ etail r.
Proof.
  intros e r. unfold etail. simpl. f_equal.
  induction r as [| b r IH]; simpl; [reflexivity | rewrite IH; reflexivity].
Qed.

Lemma efollow_etail : forall hdr e l rst, list_follow rst -> efollow hdr e (etail l ++ rst).
Proof.
  intros hdr e l rst H. destruct l as [| b l]; simpl.
  - destruct rst as [| t r]; [apply efollow_nil | apply efollow_close; exact (proj1 H)].
  - apply efollow_close. reflexivity.
Qed.

Lemma comma_list_ok2 : forall hdr r, Forall (KE2 hdr) r ->
  forall d fuel acc (s : pstateT) rst,
    list_follow rst -> max2 need2 r + 2 <= d ->
    sdepth s + max2 depth2 r <= MAX_NESTING -> lev hdr s (max2 depth2 r) ->
    at_toks s (etail r ++ rst) ->
    length (etail r) + 1 <= fuel ->
    exists ns s1,
      comma_list_loop A G D C E OPS fuel (k_expr A G D C E (PA d)) acc s = Ok (acc ++ ns) s1 /\
      map erase ns = map shape2 r /\ at_toks s1 rst /\ frame s s1.
Proof.
  intros hdr r Hall. induction Hall as [| b r Hb Hall IH];
    intros d fuel acc s rst Hsep Hd Hdep Hlev Hat Hfu.
  - simpl in Hat. destruct fuel as [| f]; [lia |]. cbn [comma_list_loop].
    assert (Hk : skipped A G D C E OPS (KOp OComma) s = Ok false s).
    { apply (skipped_no OPS s rst _ Hat). destruct rst; [exact I | exact (proj2 Hsep)]. }
    rewrite Hk. cbn [bind]. exists [], s. rewrite app_nil_r.
    split; [reflexivity |]. split; [reflexivity |]. split; [exact Hat | apply frame_refl].
  - simpl in Hd, Hdep, Hlev, Hat, Hfu. rewrite <- app_assoc in Hat.
    destruct fuel as [| f]; [lia |]. cbn [comma_list_loop].
    destruct (skipped_yes OPS s _ _ (KOp OComma) Hat eq_refl) as (s1 & Hs & Hat1 & Hf1).
    rewrite Hs. cbn [bind].
    destruct (Hb d s1 (etail r ++ rst)) as (nb & s2 & Hk & Heb & Hat2 & Hf2).
    + lia.
    + exact Hat1.
    + apply efollow_etail. exact Hsep.
    + unframe. lia.
    + apply (lev_frame hdr s s1 _ _ Hf1 Hlev). lia.
    + rewrite Hk. cbn [bind].
      pose proof (frame_trans _ _ _ Hf1 Hf2) as Hf12.
      destruct (IH d f (acc ++ [nb]) s2 rst Hsep) as (ns & s3 & Hl & Hes & Hat3 & Hf3).
      * lia.
      * unframe. lia.
      * apply (lev_frame hdr s s2 _ _ Hf12 Hlev). lia.
      * exact Hat2.
      * unfold etail in Hfu. simpl in Hfu. rewrite app_length in Hfu. fold (etail r) in Hfu. lia.
      * exists (nb :: ns), s3. split; [rewrite Hl, <- app_assoc; reflexivity |].
        split; [simpl; rewrite Heb, Hes; reflexivity |].
        split; [exact Hat3 | exact (frame_trans _ _ _ Hf12 Hf3)].
Qed.

(* Parser::expression_list *)
Lemma exprs_ok2 : forall hdr es, es <> [] -> Forall (KE2 hdr) es ->
  forall d (s : pstateT) rst,
    list_follow rst -> max2 need2 es + 2 <= d ->
    sdepth s + max2 depth2 es <= MAX_NESTING -> lev hdr s (max2 depth2 es) ->
    at_toks s (commas (map print2 es) ++ rst) ->
    exists ns s1,
      expression_list A G D C E OPS (PA d) s = Ok ns s1 /\
      map erase ns = map shape2 es /\ at_toks s1 rst /\ frame s s1.
Proof.
  intros hdr es Hne Hall d s rst Hsep Hd Hdep Hlev Hat.
  destruct Hall as [| a r Ha Hall]; [exfalso; apply Hne; reflexivity |].
  rewrite commas_cons2 in Hat. rewrite <- app_assoc in Hat.
  simpl in Hd, Hdep, Hlev. unfold expression_list.
  destruct (Ha d s (etail r ++ rst)) as (na & s1 & Hk & Hea & Hat1 & Hf1).
  - lia.
  - exact Hat.
  - apply efollow_etail. exact Hsep.
  - lia.
  - apply (lev_frame hdr s s _ _ (frame_refl s) Hlev). lia.
  - rewrite Hk. cbn [bind].
    destruct (comma_list_ok2 hdr r Hall d (loop_fuel A G D E s1) [na] s1 rst Hsep)
      as (ns & s2 & Hl & Hes & Hat2 & Hf2).
    + lia.
    + unframe. lia.
    + apply (lev_frame hdr s s1 _ _ Hf1 Hlev). lia.
    + exact Hat1.
    + pose proof (loop_fuel_toks s1 _ Hat1) as H. rewrite app_length in H. lia.
    + exists (na :: ns), s2. split; [exact Hl |].
      split; [simpl; rewrite Hea, Hes; reflexivity |].
      split; [exact Hat2 | exact (frame_trans _ _ _ Hf1 Hf2)].
Qed.

(* ------------------------------------------------------------ types over exp2 *)

Notation TNP2 := (TNP A G D C E OPS exp2 print2 shape2 depth2 need2).
Notation TP2 := (TP A G D C E OPS exp2 print2 shape2 depth2 need2).
Notation SigP2 := (SigP A G D C E OPS exp2 print2 shape2 depth2 need2).
Notation XOK2 := (XOK A G D C E OPS exp2 print2 shape2 depth2 need2).

(* ------------------------------------------------------------ literal values *)

Definition elem_follow (rst : list token) : Prop :=
  match rst with
  | t :: _ => t = tk OComma \/ t = tk OColon \/ t = tk OBraceRight
  | [] => False
  end.

(* parse_element_value *)
Definition VP (v : elemv) : Prop := forall d (s : pstateT) rst,
  need_elemv v + 2 <= d -> at_toks s (print_elemv v ++ rst) -> elem_follow rst ->
  sdepth s + depth_elemv v <= MAX_NESTING -> lev false s (depth_elemv v) ->
  exists n s1, parse_element_value A G D C E (PA d) s = Ok n s1 /\ erase n = shape_elemv v /\
               at_toks s1 rst /\ frame s s1.

Definition depth_elems (l : elems2) : nat :=
  4 + max2 (fun kv : option elemv * elemv => Nat.max (omax depth_elemv (fst kv)) (depth_elemv (snd kv))) l.
Definition need_elems (l : elems2) : nat :=
  6 + max2 (fun kv : option elemv * elemv => Nat.max (omax need_elemv (fst kv)) (need_elemv (snd kv))) l.

(* parse_lit_value:  { k: v, ... } *)
Definition LVP (l : elems2) : Prop := forall d (s : pstateT) rst,
  need_elems l <= d -> at_toks s (print_elems l ++ rst) ->
  sdepth s + depth_elems l <= MAX_NESTING -> levw s (depth_elems l) ->
  exists n s1, k_litvalue A G D C E (PA d) s = Ok n s1 /\ erase n = shape_elems l /\
               at_toks s1 rst /\ frame s s1.

(* ------------------------------------------------------------ statements *)

Definition depth_block (l : list stmt2) : nat := 4 + max2 depth_stmt2 l.
Definition need_block (l : list stmt2) : nat := 6 + max2 need_stmt2 l.

(* the production of an open-ended statement (a label on a statement that took
   its own ";") takes a ";" that follows: there must be none *)
Definition sfollow (st : stmt2) (rst : list token) : Prop :=
  open_end st = true ->
  match rst with t :: _ => tok_is t (KOp OSemiColon) = false | [] => True end.

Lemma sfollow_closed : forall st rst, open_end st = false -> sfollow st rst.
Proof. intros st rst H H'. rewrite H in H'. discriminate H'. Qed.

Lemma sfollow_nil : forall st, sfollow st [].
Proof. intros st _. exact I. Qed.

(* Parser::parse_stmt *)
Definition SC (st : stmt2) : Prop := forall d (s : pstateT) rst,
  need_stmt2 st <= d -> at_toks s (print_stmt st ++ rst) -> sfollow st rst ->
  sdepth s + depth_stmt2 st <= MAX_NESTING -> lev false s (depth_stmt2 st) ->
  exists n s1, k_stmt A G D C E (PA d) s = Ok n s1 /\ erase n = shape_stmt st /\
               at_toks s1 rst /\ frame s s1.

(* parse_if_stmt (st is an if statement) *)
Definition IFP (st : stmt2) : Prop := forall d (s : pstateT) rst,
  need_stmt2 st <= d -> at_toks s (print_stmt st ++ rst) ->
  sdepth s + depth_stmt2 st <= MAX_NESTING -> lev false s (depth_stmt2 st) ->
  exists n s1, k_if A G D C E (PA d) s = Ok n s1 /\ erase n = shape_stmt st /\
               at_toks s1 rst /\ frame s s1.

(* parse_block_stmt *)
Definition BP (l : list stmt2) : Prop := forall d (s : pstateT) rst,
  need_block l <= d -> at_toks s (print_block l ++ rst) ->
  sdepth s + depth_block l <= MAX_NESTING -> levw s (depth_block l) ->
  exists n s1, k_block A G D C E (PA d) s = Ok n s1 /\ erase n = shape_block l /\
               at_toks s1 rst /\ frame s s1.

(* what ends the statement list of a case / comm clause *)
Definition list_end (rst : list token) : Prop :=
  match rst with
  | [] => True
  | t :: _ => t = kw KCase \/ t = kw KDefault \/ t = tk OBraceRight
  end.

(* parse_stmt_list *)
Definition SLP (l : list stmt2) : Prop := forall d (s : pstateT) rst,
  need_block l <= d -> at_toks s (print_stmts l ++ rst) -> list_end rst ->
  sdepth s + depth_block l <= MAX_NESTING -> lev false s (depth_block l) ->
  exists ns s1, parse_stmt_list A G D C E (PA d) s = Ok ns s1 /\
                map erase ns = map shape_stmt l /\ at_toks s1 rst /\ frame s s1.

(* what may come after a simple statement: its ";", or (in a header) the "{" of the block *)
Definition simple_follow (hdr : bool) (sm : simple2) (rst : list token) : Prop :=
  match rst with
  | t :: _ => t = tk OSemiColon \/ (t = tk OBraceLeft /\ hdr = true /\ simple_stop2 sm)
  | [] => False
  end.

Definition depth_simple (sm : simple2) : nat := m_simple Nat.max depth2 sm.
Definition need_simple (sm : simple2) : nat := m_simple Nat.max need2 sm.

(* parse_simple_stmt *)
Definition SSP (hdr : bool) (sm : simple2) : Prop := forall d (s : pstateT) rst,
  need_simple sm + 2 <= d -> at_toks s (print_simple print2 sm ++ rst) -> simple_follow hdr sm rst ->
  sdepth s + depth_simple sm <= MAX_NESTING -> lev hdr s (depth_simple sm) ->
  exists n s1, parse_simple_stmt A G D C E OPS (PA d) s = Ok n s1 /\
               erase n = shape_simple shape2 sm /\ at_toks s1 rst /\ frame s s1.

(* parse_decl *)
Definition DP (dc : decl2) : Prop := forall d (s : pstateT) rst,
  need_stmt2 (StDecl dc) <= S d -> at_toks s (print_decl print2 (printT print2) dc ++ rst) ->
  sdepth s + depth_stmt2 (StDecl dc) <= S MAX_NESTING -> lev false s (depth_stmt2 (StDecl dc)) ->
  exists n s1,
    parse_decl A G D C E OPS (PA d) (match dc with Decl k _ _ => k end) s = Ok n s1 /\
    erase n = shape_decl shape2 (shapeTy shape2) dc /\ at_toks s1 rst /\ frame s s1.

(* ------------------------------------------------------------ the induction hypotheses *)

(* for the expression productions: every smaller derivation *)
Definition IHE (n : nat) : Prop :=
  (forall e hdr, size2 e < n -> wf2 hdr e -> QP2 hdr e /\ UP2 hdr e /\ PQP2 hdr e) /\
  (forall e hdr, size2 e < n -> wf2 hdr e -> KE2 hdr e) /\
  (forall v, size_elemv v < n -> wf_elemv v -> VP v) /\
  (forall st, size_stmt st < n -> wf_stmt st -> SC st) /\
  (forall t, sizeX size2 t < n -> wfT (wf2 false) t -> TNP2 t).

(* for the statement / declaration productions *)
Definition IHS (n : nat) : Prop :=
  (forall e hdr, size2 e < n -> wf2 hdr e -> KE2 hdr e) /\
  (forall x hdr, size2 x < n -> wf_guard hdr x -> KE2G hdr x) /\
  (forall st, size_stmt st < n -> wf_stmt st -> SC st) /\
  (forall i c b e, size_stmt (StIf i c b e) < n -> wf_stmt (StIf i c b e) -> IFP (StIf i c b e)) /\
  (forall t, sizeX size2 t < n -> wfT (wf2 false) t -> TNP2 t).

End B2.
