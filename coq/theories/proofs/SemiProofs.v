(* Proofs for C08 (automatic semicolon insertion). *)
From Coq Require Import List NArith Bool Lia.
From GoSyn Require Import Token Tok Scanner.
From GoSyn.spec Require Import Semi.
Import ListNotations.
Open Scope N_scope.

(* ------------------------------------------------------------ the trigger set *)

Lemma trigger_agrees t : t <> TKeyword KPackage -> semi_trigger t = spec_trigger t.
Proof.
  intros Hne. destruct t as [c|k|o|k s].
  - reflexivity.
  - destruct k; try reflexivity. exfalso; apply Hne; reflexivity.
  - destruct o; reflexivity.
  - destruct k; reflexivity.
Qed.

Lemma trigger_package_refuted :
  semi_trigger (TKeyword KPackage) = true /\ spec_trigger (TKeyword KPackage) = false.
Proof. split; reflexivity. Qed.

(* the only disagreement *)
Lemma trigger_differs_iff t : semi_trigger t <> spec_trigger t <-> t = TKeyword KPackage.
Proof.
  split.
  - intros Hd. destruct t as [c|k|o|k s].
    + exfalso; apply Hd; reflexivity.
    + destruct k; try reflexivity; exfalso; apply Hd; reflexivity.
    + exfalso; apply Hd; destruct o; reflexivity.
    + exfalso; apply Hd; destruct k; reflexivity.
  - intros ->. cbn. discriminate.
Qed.

Lemma spec_trigger_implies_trigger t : spec_trigger t = true -> semi_trigger t = true.
Proof.
  intros H. destruct t as [c|k|o|k s]; [discriminate| | |reflexivity].
  - destruct k; try discriminate; reflexivity.
  - destruct o; try discriminate; reflexivity.
Qed.

(* ------------------------------------------------------------ no_close *)

Lemma no_close_nil : no_close [].
Proof. intros p q H. destruct p; discriminate. Qed.

Lemma no_close_tail c b : no_close (c :: b) -> no_close b.
Proof. intros H p q E. apply (H (c :: p) q). rewrite E. reflexivity. Qed.

Lemma no_close_head b : ~ no_close (c_star :: c_slash :: b).
Proof. intros H. apply (H [] b). reflexivity. Qed.

Lemma no_close_cons c b :
  (forall b', ~ (c = c_star /\ b = c_slash :: b')) -> no_close b -> no_close (c :: b).
Proof.
  intros Hc Hb p q E. destruct p as [|x p].
  - cbn [app] in E. inversion E as [[E1 E2]]. apply (Hc q). split; assumption.
  - cbn [app] in E. inversion E as [[E1 E2]]. apply (Hb p q). assumption.
Qed.

Lemma no_close_app_l a b : no_close (a ++ b) -> no_close a.
Proof.
  intros H p q E. apply (H p (q ++ b)). rewrite E, <- app_assoc. reflexivity.
Qed.

(* ------------------------------------------------------------ le_comment, one step *)

Section WithU.
Variable U : uclass.
Notation ws := (is_whitespace U).

Lemma le_comment_nil : le_comment U [] = true.
Proof. reflexivity. Qed.

Lemma le_comment_nl l : le_comment U (c_nl :: l) = true.
Proof. reflexivity. Qed.

Lemma le_comment_close l : le_comment U (c_star :: c_slash :: l) = line_ended U l.
Proof. reflexivity. Qed.

Lemma le_comment_skip c l :
  c <> c_nl -> (forall l', ~ (c = c_star /\ l = c_slash :: l')) ->
  le_comment U (c :: l) = le_comment U l.
Proof.
  intros Hnl Hc. cbn [le_comment].
  destruct (N.eqb_spec c c_nl) as [E|_]; [contradiction|].
  destruct (N.eqb_spec c c_star) as [E|_]; [|reflexivity].
  destruct l as [|c2 l'']; [reflexivity|].
  destruct (N.eqb_spec c2 c_slash) as [E2|_]; [|reflexivity].
  exfalso. apply (Hc l''). split; [assumption|]. rewrite E2. reflexivity.
Qed.

(* the three ways a comment tail can make the line end *)
Lemma le_comment_newline b l : no_close b -> le_comment U (b ++ c_nl :: l) = true.
Proof.
  induction b as [|c b IH]; intros Hb.
  - apply le_comment_nl.
  - cbn [app]. destruct (N.eq_dec c c_nl) as [E|Hnl].
    + rewrite E. apply le_comment_nl.
    + rewrite le_comment_skip; [apply IH; apply (no_close_tail c); assumption|assumption|].
      intros l' [E1 E2]. destruct b as [|c2 b'].
      * cbn [app] in E2. discriminate.
      * cbn [app] in E2. inversion E2 as [[E3 E4]]. subst c c2.
        apply (no_close_head b'). assumption.
Qed.

Lemma le_comment_unterminated b : no_close b -> le_comment U b = true.
Proof.
  induction b as [|c b IH]; intros Hb.
  - reflexivity.
  - destruct (N.eq_dec c c_nl) as [E|Hnl].
    + rewrite E. apply le_comment_nl.
    + rewrite le_comment_skip; [apply IH; apply (no_close_tail c); assumption|assumption|].
      intros l' [E1 E2]. subst c b. apply (no_close_head l'). assumption.
Qed.

Lemma le_comment_inline b l :
  no_close b -> line_ended U l = true -> le_comment U (b ++ c_star :: c_slash :: l) = true.
Proof.
  induction b as [|c b IH]; intros Hb Hl.
  - cbn [app]. rewrite le_comment_close. assumption.
  - cbn [app]. destruct (N.eq_dec c c_nl) as [E|Hnl].
    + rewrite E. apply le_comment_nl.
    + rewrite le_comment_skip; [apply IH; [apply (no_close_tail c)|]; assumption|assumption|].
      intros l' [E1 E2]. destruct b as [|c2 b'].
      * cbn [app] in E2. discriminate.
      * cbn [app] in E2. inversion E2 as [[E3 E4]]. subst c c2.
        apply (no_close_head b'). assumption.
Qed.

(* ... and there is no other way *)
Inductive gc_shape (l : str) : Prop :=
| GS_newline b r : l = b ++ c_nl :: r -> no_close b -> gc_shape l
| GS_inline b r : l = b ++ c_star :: c_slash :: r -> no_close b -> ~ In c_nl b ->
                  line_ended U r = true -> (length r < length l)%nat -> gc_shape l
| GS_unterminated : no_close l -> gc_shape l.

Lemma le_comment_shape l : le_comment U l = true -> gc_shape l.
Proof.
  induction l as [|c l IH]; intros H.
  - apply GS_unterminated. apply no_close_nil.
  - destruct (N.eq_dec c c_nl) as [E|Hnl].
    { subst c. apply (GS_newline _ [] l); [reflexivity|apply no_close_nil]. }
    assert (Hcases : (exists l', c = c_star /\ l = c_slash :: l') \/
                     (forall l', ~ (c = c_star /\ l = c_slash :: l'))).
    { destruct (N.eq_dec c c_star) as [E|Hs].
      - destruct l as [|c2 l'].
        + right. intros l' [_ E2]. discriminate.
        + destruct (N.eq_dec c2 c_slash) as [E2|Hs2].
          * left. exists l'. subst. split; reflexivity.
          * right. intros l'' [_ E3]. inversion E3. contradiction.
      - right. intros l' [E _]. contradiction. }
    destruct Hcases as [[l' [E1 E2]]|Hc].
    + subst c l. rewrite le_comment_close in H.
      apply (GS_inline _ [] l'); [reflexivity|apply no_close_nil|intros []|assumption|].
      cbn [length]. lia.
    + rewrite le_comment_skip in H by assumption.
      destruct (IH H) as [b r E Hb|b r E Hb Hin Hr Hlen|Hb].
      * apply (GS_newline _ (c :: b) r); [rewrite E; reflexivity|].
        apply no_close_cons; [|assumption].
        intros b' [E1 E2]. apply (Hc (b' ++ c_nl :: r)). split; [assumption|].
        rewrite E, E2. reflexivity.
      * apply (GS_inline _ (c :: b) r); [rewrite E; reflexivity| | |assumption|].
        -- apply no_close_cons; [|assumption].
           intros b' [E1 E2]. apply (Hc (b' ++ c_star :: c_slash :: r)). split; [assumption|].
           rewrite E, E2. reflexivity.
        -- intros [E1|E1]; [apply Hnl; assumption|apply Hin; assumption].
        -- cbn [length]. lia.
      * apply GS_unterminated. apply no_close_cons; assumption.
Qed.

(* ------------------------------------------------------------ line_ended *)

Lemma line_ended_complete l : LineEnd ws l -> line_ended U l = true.
Proof.
  intros H. induction H as [|l|c l Hnl Hws _ IH|l Hs|b l Hs Hb|b l Hs Hb Hin _ IH|b Hs Hb].
  - reflexivity.
  - reflexivity.
  - cbn [line_ended]. destruct (N.eqb_spec c c_nl) as [E|_]; [reflexivity|].
    rewrite Hws. assumption.
  - cbn [line_ended]. cbn [N.eqb Pos.eqb]. rewrite Hs. reflexivity.
  - cbn [line_ended]. cbn [N.eqb Pos.eqb]. rewrite Hs.
    apply le_comment_newline. assumption.
  - cbn [line_ended]. cbn [N.eqb Pos.eqb]. rewrite Hs.
    apply le_comment_inline; assumption.
  - cbn [line_ended]. cbn [N.eqb Pos.eqb]. rewrite Hs.
    apply le_comment_unterminated. assumption.
Qed.

Lemma line_ended_sound_len n : forall l, (length l <= n)%nat ->
  line_ended U l = true -> LineEnd ws l.
Proof.
  induction n as [|n IH]; intros l Hlen H.
  - destruct l; [apply LE_eof|cbn [length] in Hlen; lia].
  - destruct l as [|c l]; [apply LE_eof|].
    cbn [length] in Hlen. cbn [line_ended] in H.
    destruct (N.eqb_spec c c_nl) as [E|Hnl]; [subst c; apply LE_nl|].
    destruct (ws c) eqn:Hws.
    { apply LE_ws; [assumption|assumption|]. apply IH; [lia|assumption]. }
    destruct (N.eqb_spec c c_slash) as [E|_]; [|discriminate]. subst c.
    destruct l as [|c2 l2]; [discriminate|].
    destruct (N.eqb_spec c2 c_slash) as [E2|_].
    { subst c2. apply LE_line_comment. assumption. }
    destruct (N.eqb_spec c2 c_star) as [E3|_]; [|discriminate]. subst c2.
    cbn [length] in Hlen.
    destruct (le_comment_shape l2 H) as [b r E Hb|b r E Hb Hin Hr Hl|Hb].
    + rewrite E. apply LE_gc_newline; assumption.
    + rewrite E. apply LE_gc_inline; try assumption.
      apply IH; [lia|assumption].
    + apply LE_gc_unterminated; assumption.
Qed.

Theorem line_ended_iff l : line_ended U l = true <-> LineEnd ws l.
Proof.
  split.
  - apply (line_ended_sound_len (length l)). apply le_n.
  - apply line_ended_complete.
Qed.

Lemma LineEnd0_iff l : ws c_slash = false -> (LineEnd0 ws l <-> LineEnd ws l).
Proof.
  intros Hs. split; intros H.
  - induction H as [|l|c l Hnl Hws _ IH|l|b l Hb|b l Hb Hin _ IH|b Hb].
    + apply LE_eof.
    + apply LE_nl.
    + apply LE_ws; assumption.
    + apply LE_line_comment; assumption.
    + apply LE_gc_newline; assumption.
    + apply LE_gc_inline; assumption.
    + apply LE_gc_unterminated; assumption.
  - induction H as [|l|c l Hnl Hws _ IH|l _|b l _ Hb|b l _ Hb Hin _ IH|b _ Hb].
    + apply LE0_eof.
    + apply LE0_nl.
    + apply LE0_ws; assumption.
    + apply LE0_line_comment.
    + apply LE0_gc_newline; assumption.
    + apply LE0_gc_inline; assumption.
    + apply LE0_gc_unterminated; assumption.
Qed.

Lemma ascii_ok_slash : uclass_ascii_ok U -> ws c_slash = false.
Proof.
  intros H. destruct (H c_slash) as [_ [_ H3]]; [reflexivity|].
  unfold is_whitespace. rewrite H3. reflexivity.
Qed.

Theorem line_ended_iff_ascii l :
  uclass_ascii_ok U -> (line_ended U l = true <-> LineEnd0 ws l).
Proof.
  intros H. rewrite (LineEnd0_iff l (ascii_ok_slash H)). apply line_ended_iff.
Qed.

End WithU.

(* ------------------------------------------------------------ next_token *)

Section Insert.
Variable U : uclass.
Notation ws := (is_whitespace U).

(* next_token takes its first branch: the pending flag is set and the line ends *)
Definition synthetic (s : sstate) : bool := s_semi s && line_ended U (s_rest s).

(* the state after a synthetic semicolon: nothing consumed, flag cleared *)
Definition synth_state (s : sstate) : sstate :=
  {| s_pos := s_pos s; s_rest := s_rest s; s_semi := false; s_lines := s_lines s |}.

Lemma synthetic_iff s :
  synthetic s = true <-> s_semi s = true /\ LineEnd ws (s_rest s).
Proof.
  unfold synthetic. rewrite andb_true_iff, line_ended_iff. reflexivity.
Qed.

Lemma next_token_synthetic s :
  synthetic s = true ->
  next_token U s = SR_tok (s_pos s) (TOperator OSemiColon) (synth_state s).
Proof. unfold next_token, synthetic, synth_state. intros H. rewrite H. reflexivity. Qed.

Lemma next_token_real s p t s' :
  synthetic s = false -> next_token U s = SR_tok p t s' ->
  exists l ls cnt,
    skip_ws U (s_pos s) (s_rest s) (s_lines s) = (p, l, ls) /\
    scan_token U l = inl (t, cnt) /\
    s' = {| s_pos := p + cnt; s_rest := skipn (N.to_nat cnt) l;
            s_semi := semi_trigger t; s_lines := add_token_cross_line p t ls |}.
Proof.
  unfold next_token, synthetic. intros Hs. rewrite Hs.
  destruct (skip_ws U (s_pos s) (s_rest s) (s_lines s)) as [[pos l] ls].
  destruct l as [|c l0]; [discriminate|].
  destruct (scan_token U (c :: l0)) as [[tok cnt]|[off k]] eqn:Hst; [|discriminate].
  intros H. inversion H; subst. exists (c :: l0), ls, cnt. repeat split; assumption.
Qed.

Lemma skip_ws_spec : forall l pos ls p l' ls',
  skip_ws U pos l ls = (p, l', ls') ->
  pos <= p /\ l' = skipn (N.to_nat (p - pos)) l.
Proof.
  induction l as [|c l IH]; intros pos ls p l' ls' H.
  - cbn [skip_ws] in H. inversion H; subst. split; [lia|]. destruct (N.to_nat (p - p)); reflexivity.
  - cbn [skip_ws] in H. destruct (ws c).
    + apply IH in H. destruct H as [Hle Hl]. split; [lia|].
      replace (N.to_nat (p - pos)) with (S (N.to_nat (p - (pos + 1)))) by lia.
      cbn [skipn]. assumption.
    + inversion H; subst. split; [lia|].
      replace (N.to_nat (p - p)) with O by lia. reflexivity.
Qed.

(* white space up to the end of input: the line has ended *)
Lemma skip_ws_nil_line_ended : forall l pos ls p ls',
  skip_ws U pos l ls = (p, [], ls') -> line_ended U l = true.
Proof.
  induction l as [|c l IH]; intros pos ls p ls' H.
  - reflexivity.
  - cbn [skip_ws] in H. cbn [line_ended].
    destruct (N.eqb_spec c c_nl) as [_|_]; [reflexivity|].
    destruct (ws c); [|discriminate]. apply IH in H. assumption.
Qed.

(* an operator token is as long as its spelling *)
Lemma scan_token_operator l o cnt :
  scan_token U l = inl (TOperator o, cnt) -> cnt = lenN (op_str o).
Proof.
  unfold scan_token. intros H.
  repeat match type of H with
         | context [match ?x with _ => _ end] => destruct x eqn:?
         end; try discriminate; inversion H; subst; reflexivity.
Qed.

Lemma next_token_flag s p t s' :
  next_token U s = SR_tok p t s' -> s_semi s' = semi_trigger t.
Proof.
  intros H. destruct (synthetic s) eqn:Hs.
  - rewrite (next_token_synthetic s Hs) in H. inversion H; subst. reflexivity.
  - destruct (next_token_real s p t s' Hs H) as [l [ls [cnt [_ [_ E]]]]]. subst s'. reflexivity.
Qed.

(* a semicolon returned by the second branch was read from the source: one
   character, at or after the scanner position *)
Lemma next_token_real_semicolon s p s' :
  synthetic s = false -> next_token U s = SR_tok p (TOperator OSemiColon) s' ->
  s_pos s <= p /\ s_pos s' = p + 1.
Proof.
  intros Hs H. destruct (next_token_real s p _ s' Hs H) as [l [ls [cnt [Hsk [Hst E]]]]].
  apply skip_ws_spec in Hsk. destruct Hsk as [Hle _].
  apply scan_token_operator in Hst. subst s' cnt. split; [assumption|reflexivity].
Qed.

Theorem insert_iff s :
  (exists p s', next_token U s = SR_tok p (TOperator OSemiColon) s' /\
                s_pos s' = s_pos s /\ s_rest s' = s_rest s)
  <-> (s_semi s = true /\ LineEnd ws (s_rest s)).
Proof.
  rewrite <- synthetic_iff. split.
  - intros [p [s' [H [Hp _]]]]. destruct (synthetic s) eqn:Hs; [reflexivity|].
    destruct (next_token_real_semicolon s p s' Hs H) as [Hle Hp']. lia.
  - intros Hs. exists (s_pos s), (synth_state s).
    split; [apply next_token_synthetic; assumption|split; reflexivity].
Qed.

Theorem insert_result s :
  s_semi s = true -> LineEnd ws (s_rest s) ->
  next_token U s = SR_tok (s_pos s) (TOperator OSemiColon) (synth_state s).
Proof.
  intros H1 H2. apply next_token_synthetic. apply synthetic_iff. split; assumption.
Qed.

(* a returned token is the synthetic semicolon iff it is a semicolon that left
   the scanner where the token starts *)
Theorem synthetic_recognised s p t s' :
  next_token U s = SR_tok p t s' ->
  ((t = TOperator OSemiColon /\ s_pos s' = p) <-> synthetic s = true).
Proof.
  intros H. destruct (synthetic s) eqn:Hs.
  - rewrite (next_token_synthetic s Hs) in H. inversion H; subst.
    split; [reflexivity|]. intros _. split; reflexivity.
  - split; [|discriminate]. intros [Ht Hp]. subst t.
    destruct (next_token_real_semicolon s p s' Hs H) as [_ Hp']. lia.
Qed.

Theorem insert_once s p t s' :
  synthetic s = true -> next_token U s = SR_tok p t s' -> synthetic s' = false.
Proof.
  intros Hs H. rewrite (next_token_synthetic s Hs) in H. inversion H; subst. reflexivity.
Qed.

(* ------------------------------------------------------------ the token stream *)

(* [s_rest] is the suffix of the source at [s_pos] *)
Definition wf (src : str) (s : sstate) : Prop :=
  s_rest s = skipn (N.to_nat (s_pos s)) src.

Lemma wf_init src : wf src (init_state src).
Proof. reflexivity. Qed.

Lemma skipn_add {X} (a b : nat) (l : list X) : skipn a (skipn b l) = skipn (b + a) l.
Proof.
  revert l. induction b as [|b IH]; intros l; [reflexivity|].
  destruct l as [|x l]; [cbn [skipn plus]; destruct a; reflexivity|].
  cbn [skipn plus]. apply IH.
Qed.

Lemma next_token_wf src s p t s' :
  wf src s -> next_token U s = SR_tok p t s' -> wf src s'.
Proof.
  unfold wf. intros Hwf H. destruct (synthetic s) eqn:Hs.
  - rewrite (next_token_synthetic s Hs) in H. inversion H; subst. assumption.
  - destruct (next_token_real s p t s' Hs H) as [l [ls [cnt [Hsk [_ E]]]]].
    apply skip_ws_spec in Hsk. destruct Hsk as [Hle Hl]. subst s'.
    cbn [s_rest s_pos]. rewrite Hl, Hwf, !skipn_add. f_equal. lia.
Qed.

Lemma scan_loop_ext_cons fuel s x ts e :
  scan_loop_ext U fuel s = (x :: ts, e) ->
  exists fuel' s', fuel = S fuel' /\
    next_token U s = SR_tok (fst (fst x)) (snd (fst x)) s' /\ snd x = s_pos s' /\
    scan_loop_ext U fuel' s' = (ts, e).
Proof.
  destruct fuel as [|f]; [discriminate|]. cbn [scan_loop_ext].
  destruct (next_token U s) as [p t s'|s'|p k s']; [|discriminate|discriminate].
  destruct (scan_loop_ext U f s') as [ts0 e0] eqn:Hr. intros H. inversion H; subst.
  exists f, s'. repeat split; try reflexivity. assumption.
Qed.

Lemma scan_loop_ext_nil_eof fuel s sf :
  scan_loop_ext U fuel s = ([], SE_Eof sf) -> next_token U s = SR_eof sf.
Proof.
  destruct fuel as [|f]; [discriminate|]. cbn [scan_loop_ext].
  destruct (next_token U s) as [p t s'|s'|p k s'].
  - destruct (scan_loop_ext U f s') as [ts0 e0]. discriminate.
  - intros H. inversion H; subst. reflexivity.
  - discriminate.
Qed.

Lemma scan_loop_ext_erase : forall fuel s,
  scan_loop U fuel s =
    (map fst (fst (scan_loop_ext U fuel s)), snd (scan_loop_ext U fuel s)).
Proof.
  induction fuel as [|f IH]; intros s; [reflexivity|].
  cbn [scan_loop scan_loop_ext].
  destruct (next_token U s) as [p t s'|s'|p k s']; try reflexivity.
  rewrite IH. destruct (scan_loop_ext U f s') as [ts0 e0]. reflexivity.
Qed.

(* token i+1 is the synthetic semicolon iff token i triggers and the line ends
   in the source text after token i *)
Theorem stream_step src : forall fuel s ts e, wf src s ->
  scan_loop_ext U fuel s = (ts, e) ->
  forall i p t en p' t' en',
    nth_error ts i = Some (p, t, en) -> nth_error ts (S i) = Some (p', t', en') ->
    ((t' = TOperator OSemiColon /\ en' = p') <->
     (semi_trigger t = true /\ LineEnd ws (skipn (N.to_nat en) src))).
Proof.
  induction fuel as [|f IH]; intros s ts e Hwf H i p t en p' t' en' Hi Hi'.
  - cbn [scan_loop_ext] in H. inversion H; subst. destruct i; discriminate.
  - destruct ts as [|x ts]; [destruct i; discriminate|].
    destruct (scan_loop_ext_cons _ _ _ _ _ H) as [f0 [s0 [Ef [Hn [Hen Hrest]]]]].
    inversion Ef; subst f0. clear Ef.
    assert (Hwf0 : wf src s0) by (apply (next_token_wf src s _ _ s0 Hwf Hn)).
    destruct i as [|i].
    + cbn [nth_error] in Hi, Hi'. inversion Hi; subst x. clear Hi.
      cbn [fst snd] in Hn, Hen. subst en.
      destruct ts as [|y ts]; [discriminate|]. cbn [nth_error] in Hi'. inversion Hi'; subst y.
      destruct (scan_loop_ext_cons _ _ _ _ _ Hrest) as [f1 [s1 [_ [Hn1 [Hen1 _]]]]].
      cbn [fst snd] in Hn1, Hen1. subst en'.
      rewrite (synthetic_recognised s0 p' t' s1 Hn1), synthetic_iff.
      rewrite (next_token_flag s p t s0 Hn). rewrite Hwf0. reflexivity.
    + cbn [nth_error] in Hi. 
      apply (IH s0 ts e Hwf0 Hrest i p t en p' t' en' Hi Hi').
Qed.

(* the first token of a scan is never synthetic *)
Theorem stream_first s fuel ts e p t en :
  s_semi s = false -> scan_loop_ext U fuel s = (ts, e) ->
  nth_error ts 0 = Some (p, t, en) -> ~ (t = TOperator OSemiColon /\ en = p).
Proof.
  intros Hsemi H H0. destruct ts as [|x ts]; [discriminate|]. inversion H0; subst x.
  destruct (scan_loop_ext_cons _ _ _ _ _ H) as [f0 [s0 [_ [Hn [Hen _]]]]].
  cbn [fst snd] in Hn, Hen. subst en.
  rewrite (synthetic_recognised s p t s0 Hn). unfold synthetic. rewrite Hsemi. discriminate.
Qed.

(* "... or at end of input": when the scan reaches the end of the source, no
   semicolon is owed: the last token does not trigger (if the last source token
   triggered, the last token of the stream is its synthetic semicolon) *)
Theorem stream_eof : forall fuel s ts0 x sf,
  scan_loop_ext U fuel s = (ts0 ++ [x], SE_Eof sf) -> semi_trigger (snd (fst x)) = false.
Proof.
  induction fuel as [|f IH]; intros s ts0 x sf H.
  - cbn [scan_loop_ext] in H. destruct ts0; discriminate.
  - destruct ts0 as [|y ts0].
    + cbn [app] in H.
      destruct (scan_loop_ext_cons _ _ _ _ _ H) as [f0 [s0 [_ [Hn [_ Hrest]]]]].
      apply scan_loop_ext_nil_eof in Hrest.
      rewrite <- (next_token_flag s _ _ s0 Hn).
      destruct (s_semi s0) eqn:Hsemi; [|reflexivity]. exfalso.
      unfold next_token in Hrest. rewrite Hsemi in Hrest. cbn [andb] in Hrest.
      destruct (line_ended U (s_rest s0)) eqn:Hle; [discriminate|].
      destruct (skip_ws U (s_pos s0) (s_rest s0) (s_lines s0)) as [[pos l] ls] eqn:Hsk.
      destruct l as [|c l0].
      * apply skip_ws_nil_line_ended in Hsk. congruence.
      * destruct (scan_token U (c :: l0)) as [[tok cnt]|[off k]]; discriminate.
    + cbn [app] in H.
      destruct (scan_loop_ext_cons _ _ _ _ _ H) as [f0 [s0 [Ef [_ [_ Hrest]]]]].
      inversion Ef; subst f0. apply (IH s0 ts0 x sf Hrest).
Qed.

End Insert.

(* what the crate's trigger is, in terms of the specification's *)
Lemma trigger_iff t :
  semi_trigger t = true <-> (spec_trigger t = true \/ t = TKeyword KPackage).
Proof.
  split.
  - intros H. destruct t as [c|k|o|k s].
    + discriminate.
    + destruct k; try discriminate; try (left; reflexivity). right; reflexivity.
    + destruct o; try discriminate; left; reflexivity.
    + left. destruct k; reflexivity.
  - intros [H|H]; [apply spec_trigger_implies_trigger; assumption|subst t; reflexivity].
Qed.
