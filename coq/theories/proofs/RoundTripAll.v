(* Round trip, stages B-D (spec/Print3.v): the induction over the mutual nested
   derivations exp2 / elemv / stmt2 / typ2 and the theorems.  The productions are
   proved in RoundTripExpr2 (operators, calls, selectors, indices, slices),
   RoundTripLit (type operands, function literals, composite literals, type
   assertions), RoundTripStmt2 (simple statements, labels, blocks, go / defer /
   return / branch), RoundTripStmtIf (if / for / range), RoundTripStmtSwitch
   (switch / type switch / select), RoundTripDecl (var / const / type),
   RoundTripFile (functions, imports, files); types in RoundTripTypes*. *)
From Coq Require Import List Arith NArith Lia Bool.
From GoSyn Require Import Token Tok Ast Core.
From GoSyn.spec Require Import Prec Print Print2 Print3.
From GoSyn.proofs Require Import PrecProofs RoundTripProofs RoundTripTypesBase RoundTripTypes
  RoundTripTypesSig RoundTripBase2 RoundTripBase3 RoundTripExpr2 RoundTripLit RoundTripStmt2
  RoundTripStmtIf RoundTripStmtSwitch RoundTripDecl RoundTripFile.
Import ListNotations.

Section SizeFacts.
Variable X : Type.
Variable f : X -> nat.
Variable wfX : X -> Prop.
Variable P : X -> Prop.

Lemma sizeX_pos : forall t : typ X, 1 <= sizeX f t.
Proof. intro t; destruct t; try destruct s; simpl; lia. Qed.

(* every array length of a well-formed type is well-formed and smaller than the type *)
Lemma allX_wf_size : forall n (t : typ X), sizeX f t <= n -> wfT wfX t ->
  (forall x, f x < sizeX f t -> wfX x -> P x) -> allX P t.
Proof.
  induction n as [| n IH]; intros t Hn Hwf HP; [pose proof (sizeX_pos t); lia |].
  assert (HL : forall (l : list (typ X)) m, sumT (sizeX f) l <= m -> m <= n ->
                 allT (wfT wfX) l -> (forall x, f x < S m -> wfX x -> P x) -> allT (allX P) l).
  { induction l as [| a r IHl]; intros m Hs Hm Hw Hx; [exact I |]. simpl in Hs.
    destruct Hw as (Hwa & Hwr).
    split; [apply IH; [lia | exact Hwa | intros x Hlt; apply Hx; lia] |].
    apply (IHl m); [lia | exact Hm | exact Hwr | exact Hx]. }
  assert (HG : forall (l : list (group (typ X))) m, sumT (fun g => sizeX f (group_t g)) l <= m ->
                 m <= n -> allT (fun g => group_ok g /\ wfT wfX (group_t g)) l ->
                 (forall x, f x < S m -> wfX x -> P x) ->
                 allT (fun g => allX P (group_t g)) l).
  { induction l as [| a r IHl]; intros m Hs Hm Hw Hx; [exact I |]. simpl in Hs.
    destruct Hw as ((_ & Hwa) & Hwr).
    split; [apply IH; [lia | exact Hwa | intros x Hlt; apply Hx; lia] |].
    apply (IHl m); [lia | exact Hm | exact Hwr | exact Hx]. }
  destruct t as [name | pkg name | b args | t | t | x t | t | k v | dir t | t | sg | fs | es];
    simpl in Hn, Hwf, HP |- *; try exact I.
  - destruct Hwf as (_ & Hwb & _ & Hwa).
    split; [apply IH; [lia | exact Hwb | intros x Hx; apply HP; lia] |].
    apply (HL args (sumT (sizeX f) args)); [lia | lia | exact Hwa | intros x Hx; apply HP; lia].
  - apply IH; [lia | exact Hwf | intros x Hx; apply HP; lia].
  - apply IH; [lia | exact Hwf | intros x Hx; apply HP; lia].
  - destruct Hwf as (Hwx & Hwt).
    split; [apply HP; [lia | exact Hwx] | apply IH; [lia | exact Hwt | intros y Hy; apply HP; lia]].
  - apply IH; [lia | exact Hwf | intros x Hx; apply HP; lia].
  - destruct Hwf as (Hwk & Hwv).
    split; (apply IH; [lia | assumption | intros x Hx; apply HP; lia]).
  - apply IH; [lia | exact (proj1 Hwf) | intros x Hx; apply HP; lia].
  - apply IH; [lia | exact Hwf | intros x Hx; apply HP; lia].
  - destruct sg as [ps paren rs]. simpl in Hn, HP. destruct Hwf as (_ & _ & Hps & _ & _ & Hrs & _).
    split; [apply (HG ps (sumT (fun g => sizeX f (group_t g)) ps)) |
            apply (HG rs (sumT (fun g => sizeX f (group_t g)) rs))];
      try lia; try assumption; intros x Hx; apply HP; lia.
  - revert Hn Hwf HP. induction fs as [| [names t tag] r IHf]; intros Hn Hwf HP; [exact I |].
    simpl in Hn, HP. destruct Hwf as ((Hwt & _) & Hwr).
    split; [apply IH; [lia | exact Hwt | intros x Hx; apply HP; lia] |].
    apply IHf; [simpl; lia | exact Hwr | intros x Hx; apply HP; simpl in Hx |- *; lia].
  - revert Hn Hwf HP. induction es as [| e r IHe]; intros Hn Hwf HP; [exact I |].
    simpl in Hn, HP. destruct Hwf as (Hwe & Hwr).
    split; [| apply IHe; [simpl; lia | exact Hwr | intros x Hx; apply HP; simpl in Hx |- *; lia]].
    destruct e as [name [ps paren rs] | terms].
    + destruct Hwe as (_ & _ & Hps & _ & _ & Hrs & _).
      split; [apply (HG ps (sumT (fun g => sizeX f (group_t g)) ps)) |
              apply (HG rs (sumT (fun g => sizeX f (group_t g)) rs))];
        try lia; try assumption; intros x Hx; apply HP; lia.
    + destruct Hwe as (_ & Hwt).
      assert (Hs : sumT (fun bt : bool * typ X => sizeX f (snd bt)) terms <= n) by lia.
      assert (HP' : forall x, f x < S (sumT (fun bt : bool * typ X => sizeX f (snd bt)) terms) ->
                      wfX x -> P x)
        by (intros x Hx; apply HP; lia).
      clear - IH Hs HP' Hwt. induction terms as [| [b t] r2 IHt]; [exact I |]. simpl in Hs, HP'.
      destruct Hwt as (Hw1 & Hw2).
      split; [apply IH; [simpl; lia | exact Hw1 | intros x Hx; apply HP'; simpl in *; lia] |].
      apply IHt; [exact Hw2 | lia | intros x Hx; apply HP'; simpl in *; lia].
Qed.
End SizeFacts.

(* ------------------------------------------------------------ first tokens *)

Lemma first_tok_e : FirstTokE.
Proof.
  intros e hdr Hwf. destruct (first_tok2 e hdr (wf2_wfg hdr e Hwf)) as (t & l & Hp & Hs & _).
  exists t, l. split; [exact Hp |].
  destruct (expr_start2_not t Hs) as (H1 & H2 & H3 & H4 & H5 & H6 & H7 & H8 & H9 & H10 & H11 & H12).
  unfold start_tok. repeat split; try assumption.
  - apply expr_start2_simple. exact Hs.
  - destruct t as [txt | k | op | lk txt]; try reflexivity. destruct k; try reflexivity; discriminate Hs.
Qed.

Section All.
Variables (A G D C E : Type).
Variable OPS : ops A G D C.
Notation pstateT := (pstate A G D E).
Notation PA := (parsers_at A G D C E OPS).
Notation QP2 := (QP2 A G D C E OPS).
Notation UP2 := (UP2 A G D C E OPS).
Notation PQP2 := (PQP2 A G D C E OPS).
Notation KE2 := (KE2 A G D C E OPS).
Notation KE2G := (KE2G A G D C E OPS).
Notation VP := (VP A G D C E OPS).
Notation SC := (SC A G D C E OPS).
Notation IFP := (IFP A G D C E OPS).
Notation BP := (BP A G D C E OPS).
Notation DP := (DP A G D C E OPS).
Notation TNP2 := (TNP A G D C E OPS exp2 print2 shape2 depth2 need2).
Notation SigP2 := (SigP A G D C E OPS exp2 print2 shape2 depth2 need2).
Notation XOK2 := (XOK A G D C E OPS exp2 print2 shape2 depth2 need2).
Notation IHE := (IHE A G D C E OPS).
Notation IHS := (IHS A G D C E OPS).

(* an array length: Parser::expression in front of "]" *)
Lemma xok2 : forall x, wf2 false x -> KE2 false x -> XOK2 x.
Proof.
  intros x Hwf HK. split.
  - intros d s rst Hd Hat Hdep Hlev.
    apply (HK d s (tk OBarackRight :: rst)); try assumption.
    + apply efollow_close. reflexivity.
  - destruct (first_tok_e x false Hwf) as (t & l & Hp & Hst). exists t, l.
    split; [exact Hp |]. unfold start_tok in Hst. tauto.
Qed.

(* the types whose array lengths satisfy their contracts *)
Lemma types2 : forall t : typ2, wfT (wf2 false) t ->
  (forall x, size2 x < sizeX size2 t -> wf2 false x -> KE2 false x) -> TNP2 t.
Proof.
  intros t Hwf HX.
  apply (types_main A G D C E OPS exp2 print2 shape2 (wf2 false) depth2 need2 (S (sizeT t)));
    [lia | exact Hwf |].
  apply (allX_wf_size exp2 size2 (wf2 false) _ (sizeX size2 t)); [lia | exact Hwf |].
  intros x Hx Hwx. apply xok2; [exact Hwx | apply HX; assumption].
Qed.

Lemma sig2_ok : forall sg : sig2, wfSig (wf2 false) sg ->
  (forall x, size2 x < sizeX size2 (TFunc sg) -> wf2 false x -> KE2 false x) -> SigP2 sg.
Proof.
  intros sg Hwf HX.
  assert (Hwt : wfT (wf2 false) (TFunc sg)) by (destruct sg; exact Hwf).
  apply (sig_ok A G D C E OPS exp2 print2 shape2 (wf2 false) depth2 need2 sg); [| exact Hwf |].
  - intros t' _ Hw' Ha'.
    apply (types_main A G D C E OPS exp2 print2 shape2 (wf2 false) depth2 need2 (S (sizeT t')));
      [lia | exact Hw' | exact Ha'].
  - apply (allX_wf_size exp2 size2 (wf2 false) _ (sizeX size2 (TFunc sg))); [lia | exact Hwt |].
    intros x Hx Hwx. apply xok2; [exact Hwx | apply HX; assumption].
Qed.

(* ------------------------------------------------------------ the induction *)

Definition PN (n : nat) : Prop :=
  (forall e hdr, size2 e < n -> wf2 hdr e -> QP2 hdr e /\ UP2 hdr e /\ PQP2 hdr e) /\
  (forall v, size_elemv v < n -> wf_elemv v -> VP v) /\
  (forall st, size_stmt st < n -> wf_stmt st -> SC st) /\
  (forall i c b e, size_stmt (StIf i c b e) < n -> wf_stmt (StIf i c b e) -> IFP (StIf i c b e)).

Lemma PN_le : forall n m, PN n -> m <= n -> PN m.
Proof.
  intros n m (H1 & H2 & H3 & H4) Hm. repeat split.
  - apply H1; [lia | assumption].
  - apply H1; [lia | assumption].
  - apply H1; [lia | assumption].
  - intros v Hv. apply H2. lia.
  - intros st Hs. apply H3. lia.
  - intros i c b e Hs. apply H4. lia.
Qed.

Lemma PN_KE2 : forall n, PN n -> forall e hdr, size2 e < n -> wf2 hdr e -> KE2 hdr e.
Proof.
  intros n (H1 & _) e hdr Hs Hwf.
  apply (contracts_KE2 A G D C E OPS hdr e (wf2_wfg hdr e Hwf)). exact (proj1 (H1 e hdr Hs Hwf)).
Qed.

Lemma PN_types : forall n, PN n -> forall t : typ2, sizeX size2 t < n -> wfT (wf2 false) t -> TNP2 t.
Proof.
  intros n HP t Hs Hwf. apply types2; [exact Hwf |].
  intros x Hx Hwx. apply (PN_KE2 n HP); [lia | exact Hwx].
Qed.

Lemma PN_guard : forall n, PN n -> forall x hdr, size2 x < n -> wf_guard hdr x -> KE2G hdr x.
Proof.
  intros n HP x hdr Hs (Hp & Hb & Hwf). unfold RoundTripBase2.KE2G.
  destruct HP as (H1 & _). destruct (H1 x hdr Hs Hwf) as (_ & _ & HPQ).
  assert (HPQg : PQP2 hdr (guard_of x)).
  { apply (PQ_assert A G D C E OPS hdr x None Hp Hb HPQ). intros ty Heq. discriminate Heq. }
  assert (Hg : wfg hdr (guard_of x)) by (apply guard_wfg; repeat split; assumption).
  apply (contracts_KE2 A G D C E OPS hdr _ Hg).
  exact (proj1 (primary_contracts A G D C E OPS hdr _ Hg I HPQg)).
Qed.

Lemma PN_IHE : forall n, PN n -> IHE n.
Proof.
  intros n HP. pose proof HP as (H1 & H2 & H3 & H4).
  split; [exact H1 |]. split; [exact (PN_KE2 n HP) |]. split; [exact H2 |].
  split; [exact H3 | exact (PN_types n HP)].
Qed.

Lemma PN_IHS : forall n, PN n -> IHS n.
Proof.
  intros n HP. pose proof HP as (H1 & H2 & H3 & H4).
  split; [exact (PN_KE2 n HP) |]. split; [exact (PN_guard n HP) |]. split; [exact H3 |].
  split; [exact H4 | exact (PN_types n HP)].
Qed.

Lemma In_sum2 : forall (Y : Type) (f : Y -> nat) l a, In a l -> f a <= sum2 f l.
Proof.
  intros Y f l a. induction l as [| b r IH]; simpl; [intros [] |].
  intros [-> | H]; [lia | specialize (IH H); lia].
Qed.

Lemma all2_In2 : forall (Y : Type) (P : Y -> Prop) l, all2 P l -> forall a, In a l -> P a.
Proof.
  intros Y P l. induction l as [| b r IH]; simpl; [intros _ a [] |].
  intros (Hb & Hr) a [-> | H]; [exact Hb | exact (IH Hr a H)].
Qed.

(* blocks from the induction hypothesis *)
Lemma PN_block : forall n, PN n -> forall body : list stmt2,
  sum2 size_stmt body < n -> all2 wf_stmt body -> seq_ok body -> BP body.
Proof.
  intros n (_ & _ & H3 & _) body Hs Hwf Hsq.
  apply (block_ok A G D C E OPS first_tok_e); [| exact Hsq]. apply Forall_forall. intros st Hin.
  split; [exact (all2_In2 _ _ _ Hwf st Hin) |].
  apply H3; [pose proof (In_sum2 _ size_stmt body st Hin); lia | exact (all2_In2 _ _ _ Hwf st Hin)].
Qed.

Lemma PN_elems : forall n, PN n -> forall elems : elems2,
  sum2 (fun kv : option elemv * elemv => omax size_elemv (fst kv) + size_elemv (snd kv)) elems < n ->
  all2 (fun kv : option elemv * elemv => opt2 wf_elemv (fst kv) /\ wf_elemv (snd kv)) elems ->
  LVP1 A G D C E OPS elems.
Proof.
  intros n (_ & H2 & _) elems Hs Hwf.
  apply litvalue_ok1_closed.
  - apply Forall_forall. intros [k v] Hin.
    pose proof (In_sum2 _ (fun kv : option elemv * elemv => omax size_elemv (fst kv) + size_elemv (snd kv))
                  elems (k, v) Hin) as Hle. simpl in Hle.
    destruct (all2_In2 _ _ _ Hwf (k, v) Hin) as (Hwk & Hwv). simpl in Hwk, Hwv |- *.
    split; [| apply H2; [lia | exact Hwv]].
    destruct k as [k |]; simpl in *; [apply H2; [lia | exact Hwk] | exact I].
  - intros kv Hin. exact (all2_In2 _ _ _ Hwf kv Hin).
Qed.

Lemma guard_need_all : forall st, guard_need st.
Proof.
  intros [sm | name st | body | c | c | es | k lbl | | i c b e | h body | lhs op x body
          | init tag cls | init bd x cls | cls | dc]; try exact I.
  unfold guard_need. rewrite need_stmt_typeswitch, need2_guard. lia.
Qed.

Lemma PN_step : forall n, PN n -> PN (S n).
Proof.
  intros n HP. pose proof HP as (H1 & H2 & H3 & H4).
  assert (HE : forall e hdr, size2 e <= n -> wf2 hdr e -> QP2 hdr e /\ UP2 hdr e /\ PQP2 hdr e).
  { intros e hdr Hs Hwf.
    assert (HPe : PN (size2 e)) by (apply (PN_le n); [exact HP | exact Hs]).
    assert (Hprim : forall (Hp : primary2 e), PQP2 hdr e -> QP2 hdr e /\ UP2 hdr e /\ PQP2 hdr e).
    { intros Hp HPQ. exact (primary_contracts A G D C E OPS hdr e (wf2_wfg hdr e Hwf) Hp HPQ). }
    destruct e as [name | k text | e | op e | op l r | f args ddd | e name | e i | e idx
                   | e lo hi mx | t | sg body | ty elems | e t];
      try (apply (old_contracts A G D C E OPS _ hdr (PN_IHE _ HPe) Hwf I)).
    - (* type operand *)
      destruct Hwf as (Hop & Hwt).
      change (size2 (E2Type t)) with (S (sizeX size2 t)) in Hs. apply (Hprim I).
      apply (PQ_type2 A G D C E OPS hdr t (conj Hop Hwt)).
      + apply (PN_types n HP); [lia | exact Hwt].
      + intros sg -> . apply sig2_ok; [destruct sg; exact Hwt |].
        intros x Hx Hwx. apply (PN_KE2 n HP); [lia | exact Hwx].
    - (* function literal *)
      destruct Hwf as (Hws & Hwb).
      change (size2 (E2FuncLit sg body)) with (S (sizeX size2 (TFunc sg) + sum2 size_stmt body)) in Hs.
      apply (Hprim I).
      apply (PQ_funclit A G D C E OPS hdr sg body); [| | exact Hws].
      + apply sig2_ok; [exact Hws |]. intros x Hx Hwx. apply (PN_KE2 n HP); [lia | exact Hwx].
      + apply (PN_block n HP); [lia | exact (proj1 Hwb) | exact (proj2 Hwb)].
    - (* composite literal *)
      pose proof Hwf as (_ & Hwty & Hwe).
      change (size2 (E2Composite ty elems)) with
        (S (size2 ty + sum2 (fun kv : option elemv * elemv =>
                               omax size_elemv (fst kv) + size_elemv (snd kv)) elems)) in Hs.
      apply (Hprim I).
      apply (PQ_composite A G D C E OPS hdr ty elems Hwf).
      + exact (proj2 (proj2 (H1 ty hdr ltac:(lia) Hwty))).
      + apply (PN_elems n HP); [lia | exact Hwe].
    - (* type assertion *)
      destruct t as [t |]; [| destruct Hwf as (_ & _ & _ & []) ].
      pose proof Hwf as (Hp & Hb & Hwe & Hwt).
      change (size2 (E2Assert e (Some t))) with (S (size2 e + sizeX size2 t)) in Hs.
      apply (Hprim I).
      apply (PQ_assert A G D C E OPS hdr e (Some t) Hp Hb).
      + exact (proj2 (proj2 (H1 e hdr ltac:(lia) Hwe))).
      + intros ty Heq. injection Heq as <-. split; [exact Hwt |].
        apply (PN_types n HP); [lia | exact Hwt]. }
  assert (HV : forall v, size_elemv v <= n -> wf_elemv v -> VP v).
  { intros v Hs Hwf. destruct v as [e | elems]; simpl in Hs, Hwf.
    - apply VP_expr_closed; [| exact Hwf]. apply (PN_KE2 n HP); [lia | exact Hwf].
    - apply VP_lit. apply LVP1_LVP. apply (PN_elems n HP); [lia | exact Hwf]. }
  assert (HI : forall i c b e, size_stmt (StIf i c b e) <= n -> wf_stmt (StIf i c b e) ->
                 IFP (StIf i c b e)).
  { intros i c b e Hs Hwf.
    apply (if_ok A G D C E OPS first_tok_e (ssp_ok A G D C E OPS first_tok_e)
             (block_ok A G D C E OPS first_tok_e) i c b e); [| exact Hwf].
    apply PN_IHS. apply (PN_le n); [exact HP | exact Hs]. }
  assert (HS : forall st, size_stmt st <= n -> wf_stmt st -> SC st).
  { intros st Hs Hwf.
    assert (HIS : IHS (size_stmt st)) by (apply PN_IHS; apply (PN_le n); [exact HP | exact Hs]).
    destruct st as [sm | name st | body | c | c | es | k lbl | | i c b e | h body | lhs op x body
                    | init tag cls | init bd x cls | cls | dc].
    all: try (apply (stmts1_ok A G D C E OPS first_tok_e _ HIS Hwf I)).
    all: try (apply (stmts2_ok A G D C E OPS first_tok_e (ssp_ok A G D C E OPS first_tok_e)
                       (block_ok A G D C E OPS first_tok_e) _ HIS Hwf I)).
    all: try (apply (stmts3_ok A G D C E OPS first_tok_e (ssp_ok A G D C E OPS first_tok_e)
                       (stmt_list_ok A G D C E OPS first_tok_e) _ HIS Hwf (guard_need_all _) I)).
    apply (stmts4_ok A G D C E OPS first_tok_e dc HIS Hwf). }
  repeat split.
  - apply (HE e hdr); [lia | assumption].
  - apply (HE e hdr); [lia | assumption].
  - apply (HE e hdr); [lia | assumption].
  - intros v Hv. apply HV. lia.
  - intros st Hs. apply HS. lia.
  - intros i c b e Hs. apply HI. lia.
Qed.

Theorem main2 : forall n, PN n.
Proof.
  induction n as [| n IH]; [| exact (PN_step n IH)].
  repeat split; intros; lia.
Qed.

(* ------------------------------------------------------------ the theorems *)

Theorem expr2_contracts : forall e hdr, wf2 hdr e -> QP2 hdr e /\ UP2 hdr e /\ PQP2 hdr e.
Proof. intros e hdr Hwf. apply (proj1 (main2 (S (size2 e)))); [lia | exact Hwf]. Qed.

(* Parser::expression in context *)
Theorem expr2_in_context : forall e hdr, wf2 hdr e -> KE2 hdr e.
Proof. intros e hdr Hwf. apply (PN_KE2 (S (size2 e)) (main2 _)); [lia | exact Hwf]. Qed.

Theorem guard_in_context : forall x hdr, wf_guard hdr x -> KE2G hdr x.
Proof. intros x hdr Hwf. apply (PN_guard (S (size2 x)) (main2 _)); [lia | exact Hwf]. Qed.

(* Parser::parse_stmt in context *)
Theorem stmt2_in_context : forall st, wf_stmt st -> SC st.
Proof.
  intros st Hwf. destruct (main2 (S (size_stmt st))) as (_ & _ & H3 & _). apply H3; [lia | exact Hwf].
Qed.

Theorem block_in_context : forall body : list stmt2, all2 wf_stmt body -> seq_ok body -> BP body.
Proof.
  intros body Hwf Hsq.
  apply (PN_block (S (sum2 size_stmt body)) (main2 _)); [lia | exact Hwf | exact Hsq].
Qed.

(* Parser::type_or_none / type_ on types over exp2 *)
Theorem type2_in_context : forall t : typ2, wfT (wf2 false) t -> TNP2 t.
Proof.
  intros t Hwf. apply (PN_types (S (sizeX size2 t)) (main2 _)); [lia | exact Hwf].
Qed.

Theorem xok2_all : forall x, wf2 false x -> XOK2 x.
Proof. intros x Hwf. apply xok2; [exact Hwf | apply expr2_in_context; exact Hwf]. Qed.

Theorem decl_in_context : forall dc : decl2, wf_decl dc -> DP dc.
Proof.
  intros dc Hwf.
  apply (decl_ok A G D C E OPS first_tok_e (size_stmt (StDecl dc)) dc); [| lia | exact Hwf].
  apply PN_IHS. apply main2.
Qed.

(* Parser::expression / Parser::parse_stmt / parse_file from the initial state *)
Theorem expr2_roundtrip : forall e, wf2 false e -> depth2 e <= DEPTH_BOUND2 ->
  forall d a0 d0 (elems : list (selem A G)) ae ge,
    map tok_of elems = print2 e -> need2 e + 2 <= d ->
    exists n s',
      entry_expression A G D C E OPS (PA d) (init_state A G D E a0 d0 elems (TEof ae ge)) = Ok n s' /\
      erase n = shape2 e /\ s_cur A G D E s' = None /\ s_rest A G D E s' = [].
Proof.
  intros e Hwf Hb d a0 d0 elems ae ge Hel Hd. unfold DEPTH_BOUND2 in Hb.
  set (si := init_state A G D E a0 d0 elems (TEof ae ge)).
  assert (Hr : rest_toks A G D E si (print2 e)).
  { split; [exists ae, ge; reflexivity | exact Hel]. }
  destruct (next_toks OPS si _ Hr) as (s0 & Hn & Hat0 & Hf0).
  unfold entry_expression, ensure_started.
  change (s_started A G D E si) with false. cbv iota. rewrite Hn. cbn [bind].
  destruct Hf0 as (Hd0 & k & Ha & Hb0).
  change (s_depth A G D E si) with 0 in Hd0. change (s_lp A G D E si) with 1 in Ha.
  change (s_ln A G D E si) with 0 in Hb0.
  destruct (expr2_in_context e false Hwf d s0 []) as (n & s1 & Hk & He & Hat1 & _).
  - exact Hd.
  - rewrite app_nil_r. exact Hat0.
  - apply efollow_nil.
  - unfold MAX_NESTING. lia.
  - split; lia.
  - exists n, s1. split; [exact Hk |]. split; [exact He |]. exact (at_toks_nil _ Hat1).
Qed.

Theorem stmt2_roundtrip : forall st, wf_stmt st -> depth_stmt2 st <= DEPTH_BOUND2 ->
  forall d a0 d0 (elems : list (selem A G)) ae ge,
    map tok_of elems = print_stmt st -> need_stmt2 st <= d ->
    exists n s',
      entry_stmt A G D C E OPS (PA d) (init_state A G D E a0 d0 elems (TEof ae ge)) = Ok n s' /\
      erase n = shape_stmt st /\ s_cur A G D E s' = None /\ s_rest A G D E s' = [].
Proof.
  intros st Hwf Hb d a0 d0 elems ae ge Hel Hd. unfold DEPTH_BOUND2 in Hb.
  set (si := init_state A G D E a0 d0 elems (TEof ae ge)).
  assert (Hr : rest_toks A G D E si (print_stmt st)).
  { split; [exists ae, ge; reflexivity | exact Hel]. }
  destruct (next_toks OPS si _ Hr) as (s0 & Hn & Hat0 & Hf0).
  unfold entry_stmt, ensure_started.
  change (s_started A G D E si) with false. cbv iota. rewrite Hn. cbn [bind].
  destruct Hf0 as (Hd0 & k & Ha & Hb0).
  change (s_depth A G D E si) with 0 in Hd0. change (s_lp A G D E si) with 1 in Ha.
  change (s_ln A G D E si) with 0 in Hb0.
  destruct (stmt2_in_context st Hwf d s0 []) as (n & s1 & Hk & He & Hat1 & _).
  - exact Hd.
  - rewrite app_nil_r. exact Hat0.
  - apply sfollow_nil.
  - unfold MAX_NESTING. lia.
  - split; lia.
  - exists n, s1. split; [exact Hk |]. split; [exact He |]. exact (at_toks_nil _ Hat1).
Qed.

Theorem file2_roundtrip : forall f, wf_file f -> depth_file f <= DEPTH_BOUND2 ->
  forall d a0 d0 (elems : list (selem A G)) ae ge,
    map tok_of elems = print_file f -> need_file f <= d ->
    exists n s',
      parse_file A G D C E OPS (PA d) (init_state A G D E a0 d0 elems (TEof ae ge)) = Ok n s' /\
      erase n = shape_file f /\ s_cur A G D E s' = None /\ s_rest A G D E s' = [].
Proof.
  exact (file_roundtrip A G D C E OPS type2_in_context xok2_all block_in_context decl_in_context).
Qed.

End All.

(* ------------------------------------------------------------ consequences: two well-formed
   derivations with the same printing stand for the same tree (the parser is a
   function of the tokens) *)

Theorem type_unambiguous : forall t1 t2 : typA,
  wfA t1 -> wfA t2 -> depthA t1 <= TDEPTH_BOUND -> depthA t2 <= TDEPTH_BOUND ->
  printA t1 = printA t2 -> shapeA t1 = shapeA t2.
Proof.
  intros t1 t2 Hw1 Hw2 Hd1 Hd2 Hp.
  set (d := Nat.max (needA t1) (needA t2) + 1).
  destruct (typeA_roundtrip nat unit unit unit unit demo_ops t1 Hw1 Hd1 d 0 tt
              (demo_stream 0 (printA t1)) 0 tt (demo_stream_toks _ _))
    as (n1 & s1 & H1 & E1 & _); [unfold d; lia |].
  destruct (typeA_roundtrip nat unit unit unit unit demo_ops t2 Hw2 Hd2 d 0 tt
              (demo_stream 0 (printA t1)) 0 tt)
    as (n2 & s2 & H2 & E2 & _); [rewrite Hp; apply demo_stream_toks | unfold d; lia |].
  rewrite H1 in H2. injection H2 as Hn _. subst n2. rewrite <- E1, <- E2. reflexivity.
Qed.

Theorem expr2_unambiguous : forall e1 e2,
  wf2 false e1 -> wf2 false e2 -> depth2 e1 <= DEPTH_BOUND2 -> depth2 e2 <= DEPTH_BOUND2 ->
  print2 e1 = print2 e2 -> shape2 e1 = shape2 e2.
Proof.
  intros e1 e2 Hw1 Hw2 Hd1 Hd2 Hp.
  set (d := Nat.max (need2 e1) (need2 e2) + 2).
  destruct (expr2_roundtrip nat unit unit unit unit demo_ops e1 Hw1 Hd1 d 0 tt
              (demo_stream 0 (print2 e1)) 0 tt (demo_stream_toks _ _))
    as (n1 & s1 & H1 & E1 & _); [unfold d; lia |].
  destruct (expr2_roundtrip nat unit unit unit unit demo_ops e2 Hw2 Hd2 d 0 tt
              (demo_stream 0 (print2 e1)) 0 tt)
    as (n2 & s2 & H2 & E2 & _); [rewrite Hp; apply demo_stream_toks | unfold d; lia |].
  rewrite H1 in H2. injection H2 as Hn _. subst n2. rewrite <- E1, <- E2. reflexivity.
Qed.

Theorem stmt2_unambiguous : forall st1 st2,
  wf_stmt st1 -> wf_stmt st2 -> depth_stmt2 st1 <= DEPTH_BOUND2 -> depth_stmt2 st2 <= DEPTH_BOUND2 ->
  print_stmt st1 = print_stmt st2 -> shape_stmt st1 = shape_stmt st2.
Proof.
  intros e1 e2 Hw1 Hw2 Hd1 Hd2 Hp.
  set (d := Nat.max (need_stmt2 e1) (need_stmt2 e2)).
  destruct (stmt2_roundtrip nat unit unit unit unit demo_ops e1 Hw1 Hd1 d 0 tt
              (demo_stream 0 (print_stmt e1)) 0 tt (demo_stream_toks _ _))
    as (n1 & s1 & H1 & E1 & _); [unfold d; lia |].
  destruct (stmt2_roundtrip nat unit unit unit unit demo_ops e2 Hw2 Hd2 d 0 tt
              (demo_stream 0 (print_stmt e1)) 0 tt)
    as (n2 & s2 & H2 & E2 & _); [rewrite Hp; apply demo_stream_toks | unfold d; lia |].
  rewrite H1 in H2. injection H2 as Hn _. subst n2. rewrite <- E1, <- E2. reflexivity.
Qed.

Theorem file_unambiguous : forall f1 f2,
  wf_file f1 -> wf_file f2 -> depth_file f1 <= DEPTH_BOUND2 -> depth_file f2 <= DEPTH_BOUND2 ->
  print_file f1 = print_file f2 -> shape_file f1 = shape_file f2.
Proof.
  intros e1 e2 Hw1 Hw2 Hd1 Hd2 Hp.
  set (d := Nat.max (need_file e1) (need_file e2)).
  destruct (file2_roundtrip nat unit unit unit unit demo_ops e1 Hw1 Hd1 d 0 tt
              (demo_stream 0 (print_file e1)) 0 tt (demo_stream_toks _ _))
    as (n1 & s1 & H1 & E1 & _); [unfold d; lia |].
  destruct (file2_roundtrip nat unit unit unit unit demo_ops e2 Hw2 Hd2 d 0 tt
              (demo_stream 0 (print_file e1)) 0 tt)
    as (n2 & s2 & H2 & E2 & _); [rewrite Hp; apply demo_stream_toks | unfold d; lia |].
  rewrite H1 in H2. injection H2 as Hn _. subst n2. rewrite <- E1, <- E2. reflexivity.
Qed.
