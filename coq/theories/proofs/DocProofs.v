(* C12 proofs.
   A. the comment loop of Parser::next over an abstract line function equals
      the specification [lead_spec] of spec/Docs.v; consequences of the spec.
   B. [Policy.p_next] is that loop with the scanner's line function.
   C. whole-parser invariant (Lift.v): the lead comments a production can drain
      are none, or the specification's documentation of one token of the input.
   D. the documentation stored in the declaration nodes is what [drain]
      returned at the entry of the production (any comment policy).
   E. the same under the crate's policy; the package clause end to end.
   F. the tree returned by parse_file: File node and top-level declarations.
   G. the clauses of the property in terms of Policy.p_next.
   H. on a sorted line table the documentation is a contiguous suffix.      *)
From Coq Require Import List NArith Bool Lia.
From GoSyn Require Import Token Tok Scanner Ast Core Policy.
From GoSyn.spec Require Import LineCol Docs.
From GoSyn.proofs Require Import LineProofs Lift StreamProofs LevelProofs.
Import ListNotations.
Open Scope N_scope.

(* ================================================================== A *)

Lemma last_opt_snoc X (l : list X) x : last_opt (l ++ [x]) = Some x.
Proof.
  induction l as [|a l IH]; [ reflexivity | ].
  cbn [app last_opt]. destruct (l ++ [x]) eqn:E; [ | exact IH ].
  destruct l; discriminate.
Qed.

Lemma last_opt_rev X (l : list X) :
  match rev l with c :: _ => last_opt l = Some c | [] => l = [] end.
Proof.
  induction l as [|x l _] using rev_ind; [ reflexivity | ].
  rewrite rev_app_distr. cbn [rev app]. apply last_opt_snoc.
Qed.

Lemma last_opt_some_snoc X (l : list X) c : last_opt l = Some c -> exists l', l = l' ++ [c].
Proof.
  induction l as [|x l _] using rev_ind; [ discriminate | ].
  rewrite last_opt_snoc. intros [= ->]. eauto.
Qed.

Lemma filter_snoc X (f : X -> bool) l x :
  filter f (l ++ [x]) = filter f l ++ (if f x then [x] else []).
Proof. rewrite filter_app. reflexivity. Qed.

Section Abs.
Variables L LS : N -> N.

Notation trailing := (trailing LS).
Notation trailingb := (trailingb LS).
Notation adjacent := (adjacent L).
Notation adjacentb := (adjacentb L).
Notation attached := (attached L).
Notation attachedb := (attachedb L).
Notation is_run := (is_run L).
Notation runb := (runb L).
Notation last_group := (last_group L).
Notation is_last_group := (is_last_group L).
Notation doc_candidates := (doc_candidates L LS).
Notation lead_spec := (lead_spec L LS).

(* ------------------------------------------------------------ booleans *)

Lemma trailingb_iff prev c : trailingb prev c = true <-> trailing prev c.
Proof.
  unfold Docs.trailingb, Docs.trailing. destruct prev as [e|].
  - rewrite N.leb_le. split; [ intros H; exists e; auto | intros (e' & [= <-] & H); exact H ].
  - split; [ discriminate | intros (e' & H & _); discriminate ].
Qed.
Lemma trailingb_false_iff prev c : trailingb prev c = false <-> ~ trailing prev c.
Proof. rewrite <- trailingb_iff. destruct (trailingb prev c); split; congruence. Qed.

Lemma adjacentb_iff c1 c2 : adjacentb c1 c2 = true <-> adjacent c1 c2.
Proof. apply N.leb_le. Qed.
Lemma adjacentb_false_iff c1 c2 : adjacentb c1 c2 = false <-> ~ adjacent c1 c2.
Proof. unfold Docs.adjacentb, Docs.adjacent. rewrite N.leb_gt. lia. Qed.
Lemma attachedb_iff p c : attachedb p c = true <-> attached p c.
Proof. apply N.leb_le. Qed.
Lemma attachedb_false_iff p c : attachedb p c = false <-> ~ attached p c.
Proof. unfold Docs.attachedb, Docs.attached. rewrite N.leb_gt. lia. Qed.

Lemma runb_cons2 a b l : runb (a :: b :: l) = adjacentb a b && runb (b :: l).
Proof. reflexivity. Qed.
Lemma is_run_cons2 a b l : is_run (a :: b :: l) <-> adjacent a b /\ is_run (b :: l).
Proof. reflexivity. Qed.

Lemma runb_iff g : runb g = true <-> is_run g.
Proof.
  induction g as [|a g IH]; [ cbn; tauto | ].
  destruct g as [|b g]; [ cbn; tauto | ].
  rewrite runb_cons2, is_run_cons2, andb_true_iff, adjacentb_iff, IH. tauto.
Qed.

Lemma last_group_cons a g :
  last_group (a :: g) = if runb (a :: g) then a :: g else last_group g.
Proof. reflexivity. Qed.

Lemma last_group_single c : last_group [c] = [c].
Proof. reflexivity. Qed.

(* ------------------------------------------------------------ adding a comment at the end *)

Lemma runb_snoc g p c : runb ((g ++ [p]) ++ [c]) = runb (g ++ [p]) && adjacentb p c.
Proof.
  induction g as [|a g IH].
  - cbn [app]. rewrite runb_cons2. cbn [Docs.runb]. destruct (adjacentb p c); reflexivity.
  - cbn [app] in *. destruct (g ++ [p]) as [|x l] eqn:E; [ destruct g; discriminate | ].
    cbn [app] in *. rewrite (runb_cons2 a x (l ++ [c])), (runb_cons2 a x l), IH.
    apply andb_assoc.
Qed.

Lemma last_group_snoc g p c :
  last_group ((g ++ [p]) ++ [c]) =
  if adjacentb p c then last_group (g ++ [p]) ++ [c] else [c].
Proof.
  induction g as [|a g IH].
  - cbn [app]. rewrite last_group_cons, runb_cons2. cbn [Docs.runb]. rewrite andb_true_r.
    destruct (adjacentb p c); reflexivity.
  - change (((a :: g) ++ [p]) ++ [c]) with (a :: (g ++ [p]) ++ [c]).
    rewrite last_group_cons.
    change (a :: (g ++ [p]) ++ [c]) with (((a :: g) ++ [p]) ++ [c]).
    rewrite runb_snoc, IH.
    change ((a :: g) ++ [p]) with (a :: g ++ [p]).
    rewrite (last_group_cons a (g ++ [p])).
    destruct (adjacentb p c); destruct (runb (a :: g ++ [p])); reflexivity.
Qed.

(* ------------------------------------------------------------ the last group is the longest suffix that is a run *)

Lemma last_group_suffix g : exists pre, g = pre ++ last_group g.
Proof.
  induction g as [|a g [pre IH]]; [ exists []; reflexivity | ].
  rewrite last_group_cons. destruct (runb (a :: g)).
  - exists []. reflexivity.
  - exists (a :: pre). cbn [app]. congruence.
Qed.

Lemma last_group_run g : is_run (last_group g).
Proof.
  induction g as [|a g IH]; [ exact I | ].
  rewrite last_group_cons. destruct (runb (a :: g)) eqn:E; [ apply runb_iff, E | exact IH ].
Qed.

Lemma last_group_nonempty g : g <> [] -> last_group g <> [].
Proof.
  induction g as [|a g IH]; [ congruence | intros _ ].
  rewrite last_group_cons. destruct (runb (a :: g)) eqn:E; [ discriminate | ].
  apply IH. intros ->. discriminate.
Qed.

Lemma last_group_incl g : incl (last_group g) g.
Proof.
  destruct (last_group_suffix g) as [pre H]. intros c Hc. rewrite H. apply in_or_app. auto.
Qed.

(* a pair of comments that are not adjacent: no run contains both *)
Lemma runb_break g1 c1 c2 g2 :
  adjacentb c1 c2 = false -> runb (g1 ++ c1 :: c2 :: g2) = false.
Proof.
  intros H. induction g1 as [|a g1 IH].
  - cbn [app]. rewrite runb_cons2, H. reflexivity.
  - cbn [app]. destruct (g1 ++ c1 :: c2 :: g2) as [|x l] eqn:E; [ destruct g1; discriminate | ].
    rewrite runb_cons2, IH. apply andb_false_r.
Qed.

(* a blank line: what is above it plays no role *)
Lemma last_group_break g1 c1 c2 g2 :
  ~ adjacent c1 c2 -> last_group (g1 ++ c1 :: c2 :: g2) = last_group (c2 :: g2).
Proof.
  intros H. apply adjacentb_false_iff in H. induction g1 as [|a g1 IH].
  - cbn [app]. rewrite last_group_cons, runb_cons2, H. reflexivity.
  - cbn [app]. rewrite last_group_cons.
    change (a :: g1 ++ c1 :: c2 :: g2) with ((a :: g1) ++ c1 :: c2 :: g2).
    rewrite runb_break by exact H. exact IH.
Qed.

Lemma last_group_whole g : is_run g -> last_group g = g.
Proof.
  intros H. destruct g as [|a g]; [ reflexivity | ].
  rewrite last_group_cons. apply runb_iff in H. rewrite H. reflexivity.
Qed.

Theorem last_group_spec g : is_last_group g (last_group g).
Proof.
  induction g as [|a g IH].
  - exists []. repeat split; try congruence. destruct pre'; discriminate.
  - rewrite last_group_cons. destruct (runb (a :: g)) eqn:E.
    + exists []. repeat split; try congruence.
      * apply runb_iff, E.
      * intros pre' p c r' H. destruct pre'; discriminate.
    + destruct IH as (pre & Hg & Hrun & Hne & Hb).
      assert (Hg0 : g <> []).
      { intros ->. discriminate. }
      exists (a :: pre). repeat split.
      * cbn [app]. congruence.
      * exact Hrun.
      * intros _. auto.
      * intros pre' p c r' Hp Hr. destruct pre' as [|a' pre'].
        -- cbn [app] in Hp. injection Hp as -> ->.
           cbn [app] in Hg. rewrite Hr in Hg. intros Hadj.
           (* a :: g is then a run: contradiction with E *)
           apply adjacentb_iff in Hadj.
           rewrite Hg, runb_cons2, Hadj in E. cbn [andb] in E.
           rewrite <- Hr in E. apply runb_iff in Hrun. congruence.
        -- cbn [app] in Hp. injection Hp as -> ->. eapply Hb; eauto.
Qed.

Theorem last_group_unique g r : is_last_group g r -> r = last_group g.
Proof.
  revert r. induction g as [|a g IH]; intros r (pre & Hg & Hrun & Hne & Hb).
  - destruct pre; [ | discriminate ]. cbn [app] in Hg. auto.
  - destruct pre as [|a' pre].
    + cbn [app] in Hg. subst r. symmetry. apply last_group_whole, Hrun.
    + cbn [app] in Hg. injection Hg as <- Hg.
      destruct r as [|c r']; [ exfalso; apply Hne; [ discriminate | reflexivity ] | ].
      destruct (@exists_last _ (a :: pre)) as (pre' & p & Hp); [ discriminate | ].
      assert (Hbreak : ~ adjacent p c) by (eapply Hb; eauto).
      rewrite last_group_cons.
      replace (a :: g) with (pre' ++ p :: c :: r').
      2:{ rewrite Hg. change (a :: pre ++ c :: r') with ((a :: pre) ++ c :: r').
          rewrite Hp, <- app_assoc. reflexivity. }
      rewrite runb_break by (apply adjacentb_false_iff, Hbreak).
      replace (pre' ++ p :: c :: r') with (a :: g).
      2:{ rewrite Hg. change (a :: pre ++ c :: r') with ((a :: pre) ++ c :: r').
          rewrite Hp, <- app_assoc. reflexivity. }
      apply IH. exists pre. repeat split.
      * exact Hg.
      * exact Hrun.
      * intros _. discriminate.
      * intros pre'' p' c' r'' Hp' Hr. eapply (Hb (a :: pre'')); [ | exact Hr ].
        cbn [app]. congruence.
Qed.

(* "longest": a suffix of g that is a run is not longer than the last group *)
Theorem last_group_longest g pre r :
  g = pre ++ r -> is_run r -> (length r <= length (last_group g))%nat.
Proof.
  revert pre. induction g as [|a g IH]; intros pre Hg Hrun.
  - destruct pre; [ | discriminate ]. cbn [app] in Hg. subst r. auto.
  - rewrite last_group_cons. destruct (runb (a :: g)) eqn:E.
    + rewrite Hg, app_length. lia.
    + destruct pre as [|a' pre].
      * cbn [app] in Hg. subst r. apply runb_iff in Hrun. congruence.
      * cbn [app] in Hg. injection Hg as _ Hg. eapply IH; eauto.
Qed.

(* ------------------------------------------------------------ the loop of Parser::next *)

(* lead: newest first, as in the Rust code *)
Fixpoint loopA (prev : option N) (line : N) (lead : list comment) (g : list comment)
  : list comment :=
  match g with
  | [] => lead
  | c :: g' =>
      let lead1 := if line + 1 <? L (fst c) then [] else lead in
      let lead2 := match prev with
                   | Some e => if e <? LS (fst c) then c :: lead1 else lead1
                   | None => c :: lead1
                   end in
      loopA prev (L (cend c)) lead2 g'
  end.

Definition nextA (prev : option N) (g : list comment) (tokpos : option N) : list comment :=
  let lead := loopA prev 0 [] g in
  match lead, tokpos with
  | c :: _, Some p => if L (cend c) + 1 <? L p then [] else lead
  | _, _ => lead
  end.

Lemma keep_eq prev c (l : list comment) :
  match prev with
  | Some e => if e <? LS (fst c) then c :: l else l
  | None => c :: l
  end = (if negb (trailingb prev c) then [c] else []) ++ l.
Proof.
  unfold Docs.trailingb. destruct prev as [e|]; [ | reflexivity ].
  rewrite N.leb_antisym, negb_involutive. destruct (e <? LS (fst c)); reflexivity.
Qed.

Lemma loopA_run prev : forall g pre p,
  loopA prev (L (cend p)) (rev (doc_candidates prev (pre ++ [p]))) g
  = rev (doc_candidates prev ((pre ++ [p]) ++ g)).
Proof.
  induction g as [|c g IH]; intros pre p.
  - rewrite app_nil_r. reflexivity.
  - cbn [loopA]. rewrite keep_eq.
    replace ((pre ++ [p]) ++ c :: g) with (((pre ++ [p]) ++ [c]) ++ g)
      by (rewrite <- (app_assoc _ [c] g); reflexivity).
    rewrite <- IH. f_equal.
    unfold Docs.doc_candidates. rewrite last_group_snoc.
    replace (L (cend p) + 1 <? L (fst c)) with (negb (adjacentb p c))
      by (unfold Docs.adjacentb; rewrite N.ltb_antisym; reflexivity).
    destruct (adjacentb p c); cbn [negb].
    + rewrite filter_snoc, rev_app_distr.
      destruct (negb (trailingb prev c)); reflexivity.
    + cbn [filter]. destruct (negb (trailingb prev c)); reflexivity.
Qed.

Lemma loopA_spec prev g : loopA prev 0 [] g = rev (doc_candidates prev g).
Proof.
  destruct g as [|c g]; [ reflexivity | ].
  cbn [loopA]. rewrite keep_eq.
  replace (if 0 + 1 <? L (fst c) then [] else []) with (@nil comment)
    by (destruct (0 + 1 <? L (fst c)); reflexivity).
  rewrite app_nil_r.
  change (c :: g) with (([] ++ [c]) ++ g). rewrite <- loopA_run. f_equal.
  unfold Docs.doc_candidates. cbn [app]. rewrite last_group_single. cbn [filter].
  destruct (negb (trailingb prev c)); reflexivity.
Qed.

(* the loop and the final test of Parser::next compute the specification *)
Theorem nextA_spec prev g tokpos : nextA prev g tokpos = rev (lead_spec prev g tokpos).
Proof.
  unfold nextA, Docs.lead_spec. rewrite loopA_spec.
  pose proof (last_opt_rev _ (doc_candidates prev g)) as H.
  destruct (rev (doc_candidates prev g)) as [|c r] eqn:E.
  - rewrite H. destruct tokpos; reflexivity.
  - rewrite H. destruct tokpos as [p|]; [ | exact (eq_sym E) ].
    replace (L (cend c) + 1 <? L p) with (negb (attachedb p c))
      by (unfold Docs.attachedb; rewrite N.ltb_antisym; reflexivity).
    destruct (attachedb p c); cbn [negb]; [ exact (eq_sym E) | reflexivity ].
Qed.

(* ------------------------------------------------------------ consequences of the specification *)

Lemma doc_candidates_incl prev g : incl (doc_candidates prev g) (last_group g).
Proof. intros c H. apply filter_In in H. apply H. Qed.

Lemma lead_spec_cases prev g tokpos :
  lead_spec prev g tokpos = [] \/ lead_spec prev g tokpos = doc_candidates prev g.
Proof.
  unfold Docs.lead_spec. destruct tokpos; [ | auto ].
  destruct (last_opt _); [ | auto ]. destruct (attachedb _ _); auto.
Qed.

Lemma lead_spec_incl_candidates prev g tokpos :
  incl (lead_spec prev g tokpos) (doc_candidates prev g).
Proof.
  destruct (lead_spec_cases prev g tokpos) as [-> | ->]; [ intros c [] | apply incl_refl ].
Qed.

(* only comments of this token's own group *)
Theorem lead_spec_incl prev g tokpos : incl (lead_spec prev g tokpos) g.
Proof.
  eapply incl_tran; [ apply lead_spec_incl_candidates | ].
  eapply incl_tran; [ apply doc_candidates_incl | apply last_group_incl ].
Qed.

(* a comment on the line of the previous token is never documentation *)
Theorem lead_spec_not_trailing prev g tokpos c :
  In c (lead_spec prev g tokpos) -> ~ trailing prev c.
Proof.
  intros H. apply lead_spec_incl_candidates in H. apply filter_In in H.
  destruct H as [_ H]. apply trailingb_false_iff. destruct (trailingb prev c); [ discriminate | auto ].
Qed.

(* a blank line between the documentation and the token: none *)
Theorem lead_spec_blank_line prev g p c :
  last_opt (doc_candidates prev g) = Some c -> ~ attached p c ->
  lead_spec prev g (Some p) = [].
Proof.
  intros Hl Ha. unfold Docs.lead_spec. rewrite Hl.
  apply attachedb_false_iff in Ha. rewrite Ha. reflexivity.
Qed.

Lemma last_opt_last_group g c : last_opt g = Some c -> last_opt (last_group g) = Some c.
Proof.
  intros H. destruct (last_group_suffix g) as [pre Hp].
  assert (Hne : last_group g <> []).
  { apply last_group_nonempty. intros ->. discriminate. }
  destruct (@exists_last _ _ Hne) as (l & x & Hx).
  rewrite Hx in *. rewrite Hp, app_assoc, last_opt_snoc in H. rewrite last_opt_snoc. exact H.
Qed.

(* the same in terms of the last comment in front of the token, when that
   comment does not trail the previous token *)
Theorem lead_spec_blank_line_last prev g p c :
  last_opt g = Some c -> ~ trailing prev c -> ~ attached p c ->
  lead_spec prev g (Some p) = [].
Proof.
  intros Hl Ht Ha. apply lead_spec_blank_line with (c := c); [ | exact Ha ].
  apply last_opt_last_group in Hl. apply last_opt_some_snoc in Hl as [l Hl].
  unfold Docs.doc_candidates. rewrite Hl, filter_snoc.
  apply trailingb_false_iff in Ht. rewrite Ht. cbn [negb]. apply last_opt_snoc.
Qed.

(* a blank line between two comments: the comments above it are never documentation *)
Theorem lead_spec_detached prev g1 c1 c2 g2 tokpos :
  ~ adjacent c1 c2 ->
  lead_spec prev (g1 ++ c1 :: c2 :: g2) tokpos = lead_spec prev (c2 :: g2) tokpos.
Proof.
  intros H. unfold Docs.lead_spec, Docs.doc_candidates. rewrite last_group_break by exact H.
  reflexivity.
Qed.

(* the positive direction: an unbroken run, none of it trailing, the token
   directly below: all of it is the documentation *)
Theorem lead_spec_whole prev g p :
  is_run g -> (forall c, In c g -> ~ trailing prev c) ->
  (forall c, last_opt g = Some c -> attached p c) ->
  lead_spec prev g (Some p) = g.
Proof.
  intros Hrun Hnt Hatt. unfold Docs.lead_spec, Docs.doc_candidates.
  rewrite last_group_whole by exact Hrun.
  assert (Hf : filter (fun c => negb (trailingb prev c)) g = g).
  { clear Hrun Hatt. induction g as [|a g IH]; [ reflexivity | ].
    cbn [filter]. assert (Ha : trailingb prev a = false).
    { apply trailingb_false_iff, Hnt. left. reflexivity. }
    rewrite Ha. cbn [negb]. f_equal. apply IH. intros c Hc. apply Hnt. right. exact Hc. }
  rewrite Hf. destruct (last_opt g) as [c|] eqn:El; [ | reflexivity ].
  assert (Ha : attachedb p c = true) by (apply attachedb_iff, Hatt; reflexivity).
  rewrite Ha. reflexivity.
Qed.

(* ---- corners of the loop ---- *)

(* CORNER 1.  A trailing comment takes part in the adjacency chain although it
   is not kept: directly above the documentation it does not detach it ... *)
Lemma corner_trailing_then_docs prev t c p :
  trailing prev t -> ~ trailing prev c -> adjacent t c -> attached p c ->
  lead_spec prev [t; c] (Some p) = [c].
Proof.
  intros Ht Hc Ha Hp. unfold Docs.lead_spec, Docs.doc_candidates.
  rewrite last_group_whole by (split; [ exact Ha | exact I ]).
  cbn [filter]. apply trailingb_iff in Ht. apply trailingb_false_iff in Hc.
  rewrite Ht, Hc. cbn [negb last_opt]. apply attachedb_iff in Hp. rewrite Hp. reflexivity.
Qed.

(* ... and in the middle of a run it is skipped, which leaves documentation
   that is not a contiguous piece of the source.  (Not reachable when offsets
   and line starts grow along the comment list: see [candidates_suffix].) *)
Lemma corner_trailing_in_the_middle prev c1 t c3 p :
  ~ trailing prev c1 -> trailing prev t -> ~ trailing prev c3 ->
  adjacent c1 t -> adjacent t c3 -> attached p c3 ->
  lead_spec prev [c1; t; c3] (Some p) = [c1; c3].
Proof.
  intros H1 Ht H3 Ha1 Ha2 Hp. unfold Docs.lead_spec, Docs.doc_candidates.
  rewrite last_group_whole by (repeat split; assumption).
  cbn [filter]. apply trailingb_iff in Ht. apply trailingb_false_iff in H1, H3.
  rewrite Ht, H1, H3. cbn [negb last_opt]. apply attachedb_iff in Hp. rewrite Hp. reflexivity.
Qed.

(* CORNER 2.  The final test looks at the last KEPT comment, not at the last
   comment: a trailing comment that ends the group does not count. *)
Lemma corner_final_test_skips_trailing prev c t p :
  ~ trailing prev c -> trailing prev t -> adjacent c t -> attached p c ->
  lead_spec prev [c; t] (Some p) = [c].
Proof.
  intros Hc Ht Ha Hp. unfold Docs.lead_spec, Docs.doc_candidates.
  rewrite last_group_whole by (split; [ exact Ha | exact I ]).
  cbn [filter]. apply trailingb_iff in Ht. apply trailingb_false_iff in Hc.
  rewrite Ht, Hc. cbn [negb last_opt]. apply attachedb_iff in Hp. rewrite Hp. reflexivity.
Qed.

(* Both corners need a trailing comment AFTER a comment that is not trailing.
   When the line starts grow (weakly) along the list that cannot happen: the
   candidates are then a suffix of the comment list, i.e. the rule is simply
   "drop the comments on the previous token's line, take the last group". *)
Definition ls_sorted (g : list comment) : Prop :=
  forall pre c1 mid c2 post, g = pre ++ c1 :: mid ++ c2 :: post -> LS (fst c1) <= LS (fst c2).

Lemma ls_sorted_tail a g : ls_sorted (a :: g) -> ls_sorted g.
Proof. intros H pre c1 mid c2 post ->. apply (H (a :: pre) c1 mid c2 post). reflexivity. Qed.

Lemma trailing_prefix prev g :
  ls_sorted g ->
  exists tr keep, g = tr ++ keep /\ (forall c, In c tr -> trailing prev c) /\
                  (forall c, In c keep -> ~ trailing prev c).
Proof.
  induction g as [|a g IH]; intros Hs.
  - exists [], []. repeat split; intros c [].
  - destruct (IH (ls_sorted_tail _ _ Hs)) as (tr & keep & Hg & Htr & Hkeep).
    destruct (trailingb prev a) eqn:Ea.
    + exists (a :: tr), keep. repeat split.
      * cbn [app]. congruence.
      * intros c [<- | Hc]; [ apply trailingb_iff, Ea | auto ].
      * exact Hkeep.
    + exists [], (a :: g). repeat split; [ intros c [] | ].
      intros c [<- | Hc]; [ apply trailingb_false_iff, Ea | ].
      intros (e & He & Hle). apply trailingb_false_iff in Ea. apply Ea.
      exists e. split; [ exact He | ].
      apply in_split in Hc as (m & post & ->).
      pose proof (Hs [] a m c post eq_refl). lia.
Qed.

Lemma filter_keep_all X (f : X -> bool) l : (forall x, In x l -> f x = true) -> filter f l = l.
Proof.
  induction l as [|a l IH]; intros H; [ reflexivity | ].
  cbn [filter]. rewrite (H a) by (left; reflexivity). f_equal. apply IH. intros x Hx. apply H. right. exact Hx.
Qed.
Lemma filter_keep_none X (f : X -> bool) l : (forall x, In x l -> f x = false) -> filter f l = [].
Proof.
  induction l as [|a l IH]; intros H; [ reflexivity | ].
  cbn [filter]. rewrite (H a) by (left; reflexivity). apply IH. intros x Hx. apply H. right. exact Hx.
Qed.

Theorem candidates_suffix prev g :
  ls_sorted g -> exists pre, g = pre ++ doc_candidates prev g.
Proof.
  intros Hs. destruct (last_group_suffix g) as [pre Hpre].
  assert (Hs' : ls_sorted (last_group g)).
  { intros pre' c1 mid c2 post Hl. apply (Hs (pre ++ pre') c1 mid c2 post).
    rewrite Hpre at 1. rewrite Hl, <- app_assoc. reflexivity. }
  destruct (trailing_prefix prev _ Hs') as (tr & keep & Hl & Htr & Hkeep).
  exists (pre ++ tr). unfold Docs.doc_candidates. rewrite Hl, filter_app.
  rewrite filter_keep_none, filter_keep_all.
  - cbn [app]. rewrite <- app_assoc, <- Hl. exact Hpre.
  - intros c Hc. apply Hkeep, trailingb_false_iff in Hc. rewrite Hc. reflexivity.
  - intros c Hc. apply Htr, trailingb_iff in Hc. rewrite Hc. reflexivity.
Qed.

End Abs.

(* ================================================================== B *)

Section Concrete.
Variable lines : list N.

(* the scanner's line function and the line start it induces *)
Definition line_c : N -> N := line_of lines.
Definition line_start_c (p : N) : N := p - snd (Scanner.line_info lines p).

Notation specL := (lead_spec line_c line_start_c).

(* where Parser::next starts from: the end of the trailing comment that
   line_end_comment just took, else the end of the previous token *)
Definition eff_prev (d : cstate) (prev0 : option N) : option N :=
  match c_prev d with Some e => Some e | None => prev0 end.

Lemma comment_loop_lead prev : forall g line d,
  c_lead (comment_loop lines prev line d g)
  = loopA line_c line_start_c prev line (c_lead d) g.
Proof.
  induction g as [|[pos text] g IH]; intros line d; [ reflexivity | ].
  cbn [comment_loop loopA].
  destruct (Scanner.line_info lines pos) as [cline col] eqn:Hli.
  rewrite IH. cbn [c_lead].
  unfold line_c, line_start_c, line_of, cend. cbn [fst snd]. rewrite Hli. cbn [fst snd].
  reflexivity.
Qed.

(* INSTANTIATION: Policy.p_next is the abstract Parser::next over the scanner's lines *)
Theorem p_next_is_nextA d prev0 g tokpos :
  c_lead (p_next lines d prev0 g tokpos)
  = nextA line_c line_start_c (eff_prev d prev0) g tokpos.
Proof.
  unfold p_next, nextA, eff_prev. cbv zeta.
  set (prev := match c_prev d with Some e => Some e | None => prev0 end).
  set (d1 := comment_loop lines prev 0 {| c_all := c_all d; c_lead := []; c_prev := None |} g).
  assert (Hd1 : c_lead d1 = loopA line_c line_start_c prev 0 [] g)
    by (unfold d1; rewrite comment_loop_lead; reflexivity).
  rewrite <- Hd1.
  destruct (c_lead d1) as [|[cpos ctext] l] eqn:El; [ exact El | ].
  destruct tokpos as [p|]; [ | exact El ].
  unfold line_c, cend. cbn [fst snd].
  destruct (line_of lines (cpos + lenN ctext) + 1 <? line_of lines p); [ reflexivity | exact El ].
Qed.

Theorem p_next_lead d prev g tokpos :
  c_lead (p_next lines d prev g tokpos) = rev (specL (eff_prev d prev) g tokpos).
Proof. rewrite p_next_is_nextA. apply nextA_spec. Qed.

(* the lead comments of the token left behind play no role *)
Theorem p_next_fresh d prev g tokpos :
  p_next lines d prev g tokpos
  = p_next lines {| c_all := c_all d; c_lead := []; c_prev := c_prev d |} prev g tokpos.
Proof. reflexivity. Qed.

Theorem p_next_lead_incl d prev g tokpos c :
  In c (c_lead (p_next lines d prev g tokpos)) -> In c g.
Proof.
  rewrite p_next_lead, <- in_rev. apply lead_spec_incl.
Qed.

(* every comment is recorded, whatever becomes of the lead *)
Lemma comment_loop_all prev : forall g line d,
  c_all (comment_loop lines prev line d g)
  = fold_left (fun all c => record_comment c all) g (c_all d).
Proof.
  induction g as [|[pos text] g IH]; intros line d; [ reflexivity | ].
  cbn [comment_loop fold_left].
  destruct (Scanner.line_info lines pos) as [cline col]. rewrite IH. reflexivity.
Qed.

Theorem p_next_all d prev g tokpos :
  c_all (p_next lines d prev g tokpos)
  = fold_left (fun all c => record_comment c all) g (c_all d).
Proof.
  unfold p_next. cbv zeta.
  match goal with |- context [comment_loop lines ?pv 0 ?d0 g] =>
    set (d1 := comment_loop lines pv 0 d0 g);
    assert (H1 : c_all d1 = fold_left (fun all c => record_comment c all) g (c_all d))
      by (unfold d1; rewrite comment_loop_all; reflexivity)
  end.
  destruct (c_lead d1) as [|[cpos ctext] l]; [ exact H1 | ].
  destruct tokpos as [p|]; [ | exact H1 ].
  destruct (_ <? _); [ exact H1 | exact H1 ].
Qed.

Lemma comment_loop_prev prev : forall g line d,
  c_prev d = None -> c_prev (comment_loop lines prev line d g) = None.
Proof.
  induction g as [|[pos text] g IH]; intros line d H; [ exact H | ].
  cbn [comment_loop]. destruct (Scanner.line_info lines pos) as [cline col].
  apply IH. reflexivity.
Qed.

Theorem p_next_prev d prev g tokpos : c_prev (p_next lines d prev g tokpos) = None.
Proof.
  unfold p_next. cbv zeta.
  match goal with |- context [comment_loop lines ?pv 0 ?d0 g] =>
    set (d1 := comment_loop lines pv 0 d0 g);
    assert (H1 : c_prev d1 = None) by (unfold d1; apply comment_loop_prev; reflexivity)
  end.
  destruct (c_lead d1) as [|[cpos ctext] l]; [ exact H1 | ].
  destruct tokpos as [p|]; [ | exact H1 ].
  destruct (_ <? _); [ reflexivity | exact H1 ].
Qed.

(* drain returns the lead oldest first and empties it *)
Lemma p_drain_spec d :
  p_drain d = (rev (c_lead d), {| c_all := c_all d; c_lead := []; c_prev := c_prev d |}).
Proof. reflexivity. Qed.

(* ================================================================== C *)

Section Inv.
Variable E : Type.
Notation OPS := (policy_ops lines).
Notation pstate := (Core.pstate N (list Policy.comment) cstate E).
Notation selem := (Core.selem N (list Policy.comment)).
Notation sterm := (Core.sterm N (list Policy.comment) E).

(* line_end_comment may have taken the first comment of the group as the
   trailing comment of a struct field *)
Definition tail_of (g' g : list Policy.comment) : Prop := g' = g \/ exists c, g = c :: g'.

Lemma p_line_end_tail d semi g ns c c' g' d' :
  p_line_end lines d semi g ns c = (c', g', d') -> tail_of g' g.
Proof.
  unfold p_line_end. destruct g as [|[pos text] g1].
  - intros [= _ <- _]. left. reflexivity.
  - destruct (_ =? _); intros [= _ <- _]; [ right; eauto | left; reflexivity ].
Qed.

(* [lead] is empty, or it is the specification's documentation of one token of
   the input (or of the end of input), computed from that token's own comments *)
Definition docs_of (whole : list selem) (term : sterm) (lead : list Policy.comment) : Prop :=
  lead = [] \/
  (exists prev pos a1 t g g',
      In (SE pos a1 t g) whole /\ tail_of g' g /\ lead = rev (specL prev g' (Some pos))) \/
  (exists prev a g g',
      term = TEof a g /\ tail_of g' g /\ lead = rev (specL prev g' None)).

Definition doc_inv (whole : list selem) (term : sterm) (s : pstate) : Prop :=
  stream_inv whole term s /\ docs_of whole term (c_lead (s_d s)).

Lemma suffix_head_in X (x : X) r whole : suffix_of (x :: r) whole -> In x whole.
Proof. intros [pre ->]. apply in_or_app. right. left. reflexivity. Qed.

Theorem doc_inv_closed whole term : prim_closed OPS (doc_inv whole term).
Proof.
  pose proof (stream_inv_closed _ _ _ _ E OPS whole term) as HS.
  unfold doc_inv. split.
  - (* next *)
    intros s s' [Hs Hd] Hn. split; [ eapply (J_next HS); eassumption | ].
    destruct Hs as (Hr & Hm & Ht). revert Hn. unfold next.
    destruct (s_rest s) as [|[a0 a1 t g] r] eqn:Hrest; [ destruct (s_term s) eqn:Hterm | ];
      intros [= <-]; cbn [s_d d_next policy_ops].
    + right; right. exists (eff_prev (s_d s) (prev_end s)), a, g, g.
      split; [ congruence | ]. split; [ left; reflexivity | apply p_next_lead ].
    + right; left. exists (eff_prev (s_d s) (prev_end s)), a0, a1, t, g, g.
      split; [ eapply suffix_head_in; eassumption | ].
      split; [ left; reflexivity | apply p_next_lead ].
  - (* next, scanner error *)
    intros s e s' [Hs Hd] Hn. split; [ eapply (J_next_err HS); eassumption | ].
    revert Hn. unfold next.
    destruct (s_rest s) as [|[a0 a1 t g] r]; [ destruct (s_term s) | ]; intros [= _ <-]; exact Hd.
  - (* goback: the comment state is untouched *)
    intros s0 s s' [Hs0 Hd0] [Hs Hd] Hg. split; [ exact (J_goback HS s0 s s' Hs0 Hs Hg) | ].
    revert Hg. unfold goback, preback.
    destruct (s_mark s0) as [|[a0 a1 t g] r]; [ destruct (s_term s) | ];
      intros [= <-]; exact Hd.
  - (* line_end_comment *)
    intros c s c' s' [Hs Hd] Hl. split; [ eapply (J_line_end HS); eassumption | ].
    destruct Hs as (Hr & Hm & Ht). revert Hl. unfold line_end_comment.
    destruct (negb _); [ intros [= _ <-]; exact Hd | ].
    destruct (s_rest s) as [|[a0 a1 t g] r] eqn:Hrest; [ destruct (s_term s) eqn:Hterm | ].
    + destruct (d_line_end OPS (s_d s) (cur_pos s) g None c) as [[c1 g1] d1] eqn:Hle.
      intros [= _ <-]. cbn [s_d d_next policy_ops].
      right; right. exists (eff_prev d1 (prev_end s)), a, g, g1.
      split; [ congruence | ].
      split; [ eapply p_line_end_tail; exact Hle | apply p_next_lead ].
    + discriminate.
    + destruct (d_line_end OPS (s_d s) (cur_pos s) g (Some a0) c) as [[c1 g1] d1] eqn:Hle.
      intros [= _ <-]. cbn [s_d d_next policy_ops].
      right; left. exists (eff_prev d1 (prev_end s)), a0, a1, t, g, g1.
      split; [ eapply suffix_head_in; eassumption | ].
      split; [ eapply p_line_end_tail; exact Hle | apply p_next_lead ].
  - (* line_end_comment, scanner error *)
    intros c s e s' [Hs Hd] Hl. split; [ eapply (J_line_end_err HS); eassumption | ].
    revert Hl. unfold line_end_comment.
    destruct (negb _); [ discriminate | ].
    destruct (s_rest s) as [|[a0 a1 t g] r]; [ destruct (s_term s) | ];
      try destruct (d_line_end _ _ _ _ _ _) as [[? ?] ?]; try discriminate.
    intros [= _ <-]. exact Hd.
  - (* drain *)
    intros s c s' [Hs Hd] Hdr. split; [ eapply (J_drain HS); eassumption | ].
    revert Hdr. unfold drain. cbn [d_drain policy_ops]. rewrite p_drain_spec.
    intros [= _ <-]. left. reflexivity.
  - intros s [Hs Hd]. split; [ apply (J_upd_cur HS), Hs | exact Hd ].
  - intros s lp ln [Hs Hd]. split; [ apply (J_level HS), Hs | exact Hd ].
  - intros s n [Hs Hd]. split; [ apply (J_depth HS), Hs | exact Hd ].
Qed.

Lemma doc_inv_init a0 d0 elems (term : sterm) :
  c_lead d0 = [] -> doc_inv elems term (init_state a0 d0 elems term).
Proof. intros H. split; [ apply stream_inv_init | left; exact H ]. Qed.

(* what any production finds in the lead when it drains: nothing, or the
   specification's documentation of one token of the input *)
Theorem drain_docs whole term (s : pstate) :
  doc_inv whole term s -> docs_of whole term (rev (fst (drain OPS s))).
Proof.
  intros [_ Hd]. unfold drain. cbn [d_drain policy_ops]. rewrite p_drain_spec.
  cbn [fst]. rewrite rev_involutive. exact Hd.
Qed.

(* every production, at every depth, at Ok and at Err *)
Theorem doc_inv_Good whole term depth :
  Good (fun _ : unit => doc_inv whole term) (fun _ => doc_inv whole term)
       (parsers_at OPS depth).
Proof. apply lift_invariant_Good, doc_inv_closed. Qed.

Theorem doc_inv_parse_file whole term depth s :
  doc_inv whole term s ->
  post (doc_inv whole term) (doc_inv whole term) (parse_file OPS (parsers_at OPS depth) s).
Proof. apply lift_invariant_post, doc_inv_closed. Qed.
Theorem doc_inv_entry_stmt whole term depth s :
  doc_inv whole term s ->
  post (doc_inv whole term) (doc_inv whole term) (entry_stmt OPS (parsers_at OPS depth) s).
Proof. apply lift_invariant_stmt_post, doc_inv_closed. Qed.
Theorem doc_inv_entry_expression whole term depth s :
  doc_inv whole term s ->
  post (doc_inv whole term) (doc_inv whole term)
       (entry_expression OPS (parsers_at OPS depth) s).
Proof. apply lift_invariant_expression_post, doc_inv_closed. Qed.

(* ---- the link to the CURRENT token ---- *)

(* the lead is the specification's documentation of the token at the head of
   the mark, i.e. (cur_mark) of the current token *)
Definition synced (s : pstate) : Prop :=
  match s_mark s with
  | SE pos a1 t g :: _ =>
      exists prev g', tail_of g' g /\ c_lead (s_d s) = rev (specL prev g' (Some pos))
  | [] => True
  end.

Definition sync_inv (s : pstate) : Prop :=
  cur_mark s /\ (c_lead (s_d s) = [] \/ synced s).

(* Parser::next establishes it, with the token's whole group and the end of
   the token left behind *)
Theorem next_synced (s s' : pstate) :
  next OPS s = Ok tt s' ->
  cur_mark s' /\
  match s_mark s' with
  | SE pos a1 t g :: _ =>
      c_lead (s_d s') = rev (specL (eff_prev (s_d s) (prev_end s)) g (Some pos))
  | [] => True
  end.
Proof.
  unfold next, cur_mark.
  destruct (s_rest s) as [|[a0 a1 t g] r] eqn:Hrest; [ destruct (s_term s) | ];
    intros [= <-]; cbn [s_cur s_mark s_rest s_d d_next policy_ops].
  - auto.
  - split; [ eauto | apply p_next_lead ].
Qed.

Lemma sync_next (s s' : pstate) : next OPS s = Ok tt s' -> sync_inv s'.
Proof.
  intros H. apply next_synced in H as [Hc Hl]. split; [ exact Hc | right ].
  unfold synced. destruct (s_mark s') as [|[pos a1 t g] r]; [ exact I | ].
  eexists _, g. split; [ left; reflexivity | exact Hl ].
Qed.

Lemma sync_line_end c (s : pstate) c' s' :
  sync_inv s -> line_end_comment OPS c s = Ok c' s' -> sync_inv s'.
Proof.
  intros Hs. unfold line_end_comment.
  destruct (negb _); [ intros [= _ <-]; exact Hs | ].
  destruct (s_rest s) as [|[a0 a1 t g] r] eqn:Hrest; [ destruct (s_term s) | ].
  - destruct (d_line_end OPS (s_d s) (cur_pos s) g None c) as [[c1 g1] d1].
    intros [= _ <-]. split; [ exact I | right; exact I ].
  - discriminate.
  - destruct (d_line_end OPS (s_d s) (cur_pos s) g (Some a0) c) as [[c1 g1] d1] eqn:Hle.
    intros [= _ <-]. split.
    + unfold cur_mark. cbn [s_cur s_mark s_rest]. eauto.
    + right. unfold synced. cbn [s_mark s_d d_next policy_ops].
      exists (eff_prev d1 (prev_end s)), g1.
      split; [ eapply p_line_end_tail; exact Hle | apply p_next_lead ].
Qed.

Lemma sync_drain (s : pstate) c s' : sync_inv s -> drain OPS s = (c, s') -> sync_inv s'.
Proof.
  intros [Hc _]. unfold drain. cbn [d_drain policy_ops]. rewrite p_drain_spec.
  intros [= _ <-]. split; [ exact Hc | left; reflexivity ].
Qed.

Lemma sync_upd_cur (s : pstate) : sync_inv s -> sync_inv (upd_cur s None).
Proof. intros [_ H]. split; [ exact I | exact H ]. Qed.
Lemma sync_level (s : pstate) lp ln : sync_inv s -> sync_inv (upd_level s lp ln).
Proof. intros H. exact H. Qed.
Lemma sync_depth (s : pstate) n : sync_inv s -> sync_inv (upd_depth s n).
Proof. intros H. exact H. Qed.

(* what a drain in a synced state returns *)
Theorem drain_synced (s : pstate) pos t :
  sync_inv s -> s_cur s = Some (pos, t) ->
  fst (drain OPS s) = [] \/
  exists a1 g prev g',
    s_mark s = SE pos a1 t g :: s_rest s /\ tail_of g' g /\
    fst (drain OPS s) = specL prev g' (Some pos).
Proof.
  intros [Hc Hl] Hcur. unfold drain. cbn [d_drain policy_ops]. rewrite p_drain_spec. cbn [fst].
  destruct Hl as [-> | Hl]; [ left; reflexivity | right ].
  unfold cur_mark in Hc. rewrite Hcur in Hc. destruct Hc as (a1 & g & Hm).
  unfold synced in Hl. rewrite Hm in Hl. destruct Hl as (prev & g' & Ht & Hl).
  exists a1, g, prev, g'. rewrite Hl, rev_involutive. auto.
Qed.

End Inv.
End Concrete.

(* ================================================================== D *)

(* The documentation stored in a node is what [drain] returned at the entry of
   its production: by inspection, for any comment policy. *)
Section Sites.
Variables (A G D C E : Type) (OPS : ops A G D C).
Notation pstate := (Core.pstate A G D E).
Notation res := (Core.res A G D E).
Notation parsers := (Core.parsers A G D C E).
Notation nodeT := (node A C).
Variable self : parsers.

Lemma bind_ok X Y (m : res X) (f : X -> pstate -> res Y) y s' :
  bind m f = Ok y s' -> exists x s1, m = Ok x s1 /\ f x s1 = Ok y s'.
Proof. destruct m; try discriminate. cbn [bind]. eauto. Qed.

Lemma n_docs_set_docs (n : nodeT) d : n_docs (set_docs n d) = d.
Proof. destruct n. reflexivity. Qed.
Lemma n_tag_set_docs (n : nodeT) d : n_tag (set_docs n d) = n_tag n.
Proof. destruct n. reflexivity. Qed.

Ltac inv_res H :=
  repeat (first
    [ apply bind_ok in H as (? & ? & _ & H)
    | match type of H with
      | Err _ _ = Ok _ _ => discriminate H
      | Panic _ = Ok _ _ => discriminate H
      | Fuel = Ok _ _ => discriminate H
      | (if ?b then _ else _) = Ok _ _ => destruct b
      | (match ?x with _ => _ end) = Ok _ _ => destruct x
      end ]).

Ltac site_start f :=
  unfold f; hide_nats;
  match goal with |- context [drain OPS ?s] => destruct (drain OPS s) as [docs s0] end;
  cbv zeta; cbn [fst]; intros H.

Lemma func_decl_site s n s' :
  parse_func_decl OPS self s = Ok n s' ->
  n_tag n = GFuncDecl /\ n_docs n = [fst (drain OPS s)].
Proof.
  site_start parse_func_decl. inv_res H. injection H as <- _. split; reflexivity.
Qed.

Lemma var_spec_site s n s' :
  parse_var_spec OPS self s = Ok n s' ->
  n_tag n = GVarSpec /\ n_docs n = [fst (drain OPS s)].
Proof.
  site_start parse_var_spec. inv_res H; injection H as <- _; split; reflexivity.
Qed.

Lemma const_spec_site index s n s' :
  parse_const_spec OPS self index s = Ok n s' ->
  n_tag n = GConstSpec /\ n_docs n = [fst (drain OPS s)].
Proof.
  site_start parse_const_spec. inv_res H; injection H as <- _; split; reflexivity.
Qed.

Lemma type_spec_site s n s' :
  parse_type_spec OPS self s = Ok n s' ->
  n_tag n = GTypeSpec /\ n_docs n = [fst (drain OPS s)].
Proof.
  site_start parse_type_spec. inv_res H; injection H as <- _; split; reflexivity.
Qed.

Definition spec_tag (k : spec_kind) : tag :=
  match k with SKVar => GVarSpec | SKConst => GConstSpec | SKType => GTypeSpec end.

Lemma spec_site k index s n s' :
  parse_spec OPS self k index s = Ok n s' ->
  n_tag n = spec_tag k /\ n_docs n = [fst (drain OPS s)].
Proof.
  destruct k; cbn [parse_spec spec_tag];
    [ apply var_spec_site | apply const_spec_site | apply type_spec_site ].
Qed.

(* every spec of a group drains for itself *)
Lemma decl_group_sites k : forall fuel index acc s l s',
  decl_group_loop OPS self fuel k index acc s = Ok l s' ->
  exists news, l = acc ++ news /\
    Forall (fun sp => n_tag sp = spec_tag k /\ exists si : pstate, n_docs sp = [fst (drain OPS si)]) news.
Proof.
  induction fuel as [|fuel IH]; intros index acc s l s' H; [ discriminate | ].
  cbn [decl_group_loop] in H. destruct (cur_is s (KOp OParenRight)).
  - injection H as <- _. exists []. rewrite app_nil_r. auto.
  - apply bind_ok in H as (sp & s1 & Hsp & H). apply bind_ok in H as (? & s2 & _ & H).
    apply IH in H as (news & -> & Hall). exists (sp :: news).
    rewrite <- app_assoc. split; [ reflexivity | ].
    constructor; [ | exact Hall ]. apply spec_site in Hsp as [Ht Hd]. eauto.
Qed.

(* a declaration: grouped -- the docs are the declaration's, each spec has its
   own; single -- the declaration has none and its spec INHERITS what the
   declaration drained (the spec's own drain found the lead already empty) *)
Lemma decl_site k s n s' :
  parse_decl OPS self k s = Ok n s' ->
  n_tag n = decl_tag k /\
  ((n_docs n = [fst (drain OPS s)] /\
    Forall (fun sp => n_tag sp = spec_tag k /\ exists si : pstate, n_docs sp = [fst (drain OPS si)])
           (n_kids n)) \/
   (n_docs n = [c_empty OPS] /\
    exists sp, n_kids n = [sp] /\ n_tag sp = spec_tag k /\ n_docs sp = [fst (drain OPS s)])).
Proof.
  site_start parse_decl.
  apply bind_ok in H as (? & s1 & _ & H). destruct (cur_is s1 (KOp OParenLeft)).
  - apply bind_ok in H as (left & s2 & _ & H). apply bind_ok in H as (specs & s3 & Hg & H).
    inv_res H. injection H as <- _. split; [ reflexivity | left ].
    split; [ reflexivity | ]. apply decl_group_sites in Hg as (news & -> & Hall). exact Hall.
  - apply bind_ok in H as (sp & s2 & Hsp & H). inv_res H. injection H as <- _.
    split; [ reflexivity | right ]. split; [ reflexivity | ].
    exists (set_docs sp [docs]). split; [ reflexivity | ].
    rewrite n_tag_set_docs, n_docs_set_docs. apply spec_site in Hsp as [Ht _]. auto.
Qed.

Lemma field_decl_site s n s' :
  field_decl OPS self s = Ok n s' ->
  n_tag n = GField /\ n_docs n = [fst (drain OPS s)].
Proof.
  site_start field_decl. unfold finish_field in H.
  inv_res H; injection H as <- _; split; reflexivity.
Qed.

(* the package clause: drained right after the first token has been fetched *)
Lemma file_site s n s' :
  parse_file OPS self s = Ok n s' ->
  exists s0, ensure_started OPS s = Ok tt s0 /\
             n_tag n = GFile /\ n_docs n = [fst (drain OPS s0)].
Proof.
  unfold parse_file. intros H. apply bind_ok in H as ([] & s0 & Hs & H).
  exists s0. split; [ exact Hs | ].
  destruct (drain OPS s0) as [docs s1]. cbn [fst].
  inv_res H. injection H as <- _. split; reflexivity.
Qed.

End Sites.

(* ================================================================== E *)

(* the sites under the crate's policy *)
Section PolicySites.
Variable lines : list N.
Variable E : Type.
Notation OPS := (policy_ops lines).
Notation pstate := (Core.pstate N (list Policy.comment) cstate E).
Notation specL := (lead_spec (line_c lines) (line_start_c lines)).

(* line_end_comment: a struct field's docs are what it drained, plus the comment
   that follows it on the line of its ';' -- that comment is then removed from
   the group the next token sees *)
Lemma p_line_end_docs d semi g ns c c' g' d' :
  p_line_end lines d semi g ns c = (c', g', d') ->
  (c' = c /\ g' = g) \/
  exists cm, c' = c ++ [cm] /\ g = cm :: g' /\ line_of lines semi = line_of lines (fst cm).
Proof.
  unfold p_line_end. destruct g as [|[pos text] g1].
  - intros [= <- <- _]. auto.
  - destruct (line_of lines semi =? line_of lines pos) eqn:Eq; intros [= <- <- _]; [ right | auto ].
    apply N.eqb_eq in Eq. eauto.
Qed.

(* THE PACKAGE CLAUSE, end to end and unconditionally: the docs of the File node
   are the specification's documentation of the first token, with no previous
   token *)
Theorem package_docs depth a0 d0 elems (term : sterm N (list Policy.comment) E) n s' :
  c_prev d0 = None ->
  parse_file OPS (parsers_at OPS depth) (init_state a0 d0 elems term) = Ok n s' ->
  exists pos a1 t g r,
    elems = SE pos a1 t g :: r /\ n_tag n = GFile /\ n_docs n = [specL None g (Some pos)].
Proof.
  intros Hprev H. destruct elems as [|[pos a1 t g] r].
  - exfalso. revert H. unfold parse_file, ensure_started, next.
    cbn [init_state s_started s_rest s_term]. destruct term; [ | discriminate ].
    cbn [bind]. unfold drain. cbn [d_drain policy_ops s_d]. rewrite p_drain_spec.
    unfold parse_package, expect. cbn [s_cur upd_d upd_cur bind]. discriminate.
  - apply file_site in H as (s0 & Hs & Ht & Hd).
    exists pos, a1, t, g, r. split; [ reflexivity | ]. split; [ exact Ht | ].
    revert Hs. unfold ensure_started, next. cbn [init_state s_started s_rest].
    intros [= <-]. rewrite Hd. unfold drain. cbn [d_drain policy_ops s_d].
    rewrite p_drain_spec. cbn [fst c_lead]. rewrite p_next_lead, rev_involutive.
    unfold eff_prev, prev_end. cbn [s_started]. rewrite Hprev. reflexivity.
Qed.

Notation docs_of := (docs_of lines E).
Notation doc_inv := (doc_inv lines E).
Notation sync_inv := (sync_inv lines E).

(* for the productions that store [fst (drain s)] *)
Definition stores_drained (n : node N (list Policy.comment)) (s : pstate) : Prop :=
  n_docs n = [fst (drain OPS s)].

Theorem stored_docs whole term n (s : pstate) :
  doc_inv whole term s -> stores_drained n s ->
  exists docs, n_docs n = [docs] /\ docs_of whole term (rev docs).
Proof. intros Hi Hn. exists (fst (drain OPS s)). split; [ exact Hn | apply drain_docs, Hi ]. Qed.

(* ... and in a state whose lead belongs to the current token: nothing, or
   exactly the specification's documentation of that token *)
Theorem stored_docs_synced n (s : pstate) pos t :
  sync_inv s -> s_cur s = Some (pos, t) -> stores_drained n s ->
  n_docs n = [[]] \/
  exists a1 g prev g',
    s_mark s = SE pos a1 t g :: s_rest s /\ tail_of g' g /\
    n_docs n = [specL prev g' (Some pos)].
Proof.
  intros Hi Hc Hn. unfold stores_drained in Hn. rewrite Hn.
  destruct (drain_synced lines E s pos t Hi Hc) as [-> | (a1 & g & prev & g' & Hm & Ht & ->)];
    [ left; reflexivity | right; eauto 8 ].
Qed.

Theorem func_decl_docs whole term depth (s : pstate) n s' :
  doc_inv whole term s -> parse_func_decl OPS (parsers_at OPS depth) s = Ok n s' ->
  exists docs, n_docs n = [docs] /\ docs_of whole term (rev docs).
Proof. intros Hi H. eapply stored_docs; [ exact Hi | apply func_decl_site in H; apply H ]. Qed.

Theorem spec_docs whole term depth k index (s : pstate) n s' :
  doc_inv whole term s -> parse_spec OPS (parsers_at OPS depth) k index s = Ok n s' ->
  exists docs, n_docs n = [docs] /\ docs_of whole term (rev docs).
Proof. intros Hi H. eapply stored_docs; [ exact Hi | apply spec_site in H; apply H ]. Qed.

Theorem field_decl_docs whole term depth (s : pstate) n s' :
  doc_inv whole term s -> field_decl OPS (parsers_at OPS depth) s = Ok n s' ->
  exists docs, n_docs n = [docs] /\ docs_of whole term (rev docs).
Proof. intros Hi H. eapply stored_docs; [ exact Hi | apply field_decl_site in H; apply H ]. Qed.

(* a declaration: its own docs when grouped, its spec's docs when single *)
Theorem decl_docs whole term depth k (s : pstate) n s' :
  doc_inv whole term s -> parse_decl OPS (parsers_at OPS depth) k s = Ok n s' ->
  exists docs, docs_of whole term (rev docs) /\
    (n_docs n = [docs] \/ (n_docs n = [[]] /\ exists sp, n_kids n = [sp] /\ n_docs sp = [docs])).
Proof.
  intros Hi H. exists (fst (drain OPS s)). split; [ apply drain_docs, Hi | ].
  apply decl_site in H as [_ [[Hd _] | [Hd (sp & Hk & _ & Hs)]]]; [ left; exact Hd | right ].
  split; [ exact Hd | eauto ].
Qed.

End PolicySites.

(* ================================================================== F *)

(* The tree returned by parse_file: the File node and every top-level
   declaration (function, var / const / type declaration, each spec of a
   group) carries documentation that is empty or the specification's
   documentation of one token of the input. *)
Section TopLevel.
Variable lines : list N.
Variable E : Type.
Notation OPS := (policy_ops lines).
Notation pstate := (Core.pstate N (list Policy.comment) cstate E).
Notation res := (Core.res N (list Policy.comment) cstate E).
Notation cnode := (node N (list Policy.comment)).
Notation specL := (lead_spec (line_c lines) (line_start_c lines)).
Variable whole : list (selem N (list Policy.comment)).
Variable term : sterm N (list Policy.comment) E.
Variable depth : nat.
Notation P := (parsers_at OPS depth).
Notation J := (doc_inv lines E whole term).

Let HJ := doc_inv_closed lines E whole term.
Let HC := prim_closed_inv_closed _ _ _ _ E OPS _ HJ.
Let HG := doc_inv_Good lines E whole term depth.

Lemma keep X (p : pstate -> res X) :
  (forall (k : unit) s, J s -> post J J (p s)) ->
  forall s x s', J s -> p s = Ok x s' -> J s'.
Proof. intros Hp s x s' Hs H. eapply post_Ok_inv; [ apply (Hp tt s Hs) | exact H ]. Qed.

Lemma keep_drain (s : pstate) c s0 : J s -> drain OPS s = (c, s0) -> J s0.
Proof. intros Hs H. exact (J_drain HJ s c s0 Hs H). Qed.

Definition documented (docs : list Policy.comment) : Prop :=
  docs_of lines E whole term (rev docs).

Definition has_docs (n : cnode) : Prop := exists docs, n_docs n = [docs] /\ documented docs.

Definition decl_ok (d : cnode) : Prop :=
  (n_tag d = GFuncDecl /\ has_docs d) \/
  (exists k, n_tag d = decl_tag k /\
     ((* grouped: the declaration and each of its specs *)
      (has_docs d /\ Forall (fun sp => n_tag sp = spec_tag k /\ has_docs sp) (n_kids d)) \/
      (* single: the spec carries the declaration's documentation *)
      (n_docs d = [[]] /\ exists sp, n_kids d = [sp] /\ n_tag sp = spec_tag k /\ has_docs sp))).

Lemma drained_documented (s : pstate) c s0 : J s -> drain OPS s = (c, s0) -> documented c.
Proof.
  intros Hs H. pose proof (drain_docs lines E whole term s Hs) as Hd. rewrite H in Hd. exact Hd.
Qed.

Lemma decl_group_docs k : forall fuel index acc s l s',
  J s -> Forall (fun sp => n_tag sp = spec_tag k /\ has_docs sp) acc ->
  decl_group_loop OPS P fuel k index acc s = Ok l s' ->
  Forall (fun sp => n_tag sp = spec_tag k /\ has_docs sp) l.
Proof.
  induction fuel as [|fuel IH]; intros index acc s l s' Hs Hacc H; [ discriminate | ].
  cbn [decl_group_loop] in H. destruct (cur_is s (KOp OParenRight)).
  - injection H as <- _. exact Hacc.
  - apply bind_ok in H as (sp & s1 & Hsp & H). apply bind_ok in H as (b & s2 & Hsk & H).
    assert (H1 : J s1) by (eapply (keep _ _ (L_parse_spec _ _ _ _ _ OPS _ _ _ _ _ _ HC P HG k index)); eassumption).
    assert (H2 : J s2) by (eapply (keep _ _ (L_skipped _ _ _ _ _ OPS _ _ _ _ _ _ HC (KOp OSemiColon))); eassumption).
    eapply IH; [ exact H2 | | exact H ].
    apply Forall_app. split; [ exact Hacc | ]. constructor; [ | constructor ].
    pose proof (spec_site _ _ _ _ _ OPS P k index s sp s1 Hsp) as [Ht Hd].
    split; [ exact Ht | ]. exists (fst (drain OPS s)). split; [ exact Hd | ].
    apply drain_docs, Hs.
Qed.

Lemma decl_docs_full k (s : pstate) n s' :
  J s -> parse_decl OPS P k s = Ok n s' ->
  n_tag n = decl_tag k /\
  ((has_docs n /\ Forall (fun sp => n_tag sp = spec_tag k /\ has_docs sp) (n_kids n)) \/
   (n_docs n = [[]] /\ exists sp, n_kids n = [sp] /\ n_tag sp = spec_tag k /\ has_docs sp)).
Proof.
  intros Hs H. pose proof H as H0. apply decl_site in H0 as [Ht Hcases].
  split; [ exact Ht | ]. destruct Hcases as [[Hd _] | [Hd (sp & Hk & Hts & Hds)]].
  - (* grouped or not, the declaration's docs are drained here; the specs: re-walk *)
    revert H. unfold parse_decl. hide_nats. destruct (drain OPS s) as [docs s0] eqn:Hdr.
    cbv zeta. intros H.
    apply bind_ok in H as ([] & s1 & Hn & H).
    assert (H0 : J s0) by (eapply keep_drain; eassumption).
    assert (H1 : J s1) by exact (J_next HJ s0 s1 H0 Hn).
    destruct (cur_is s1 (KOp OParenLeft)).
    + apply bind_ok in H as (left & s2 & He & H). apply bind_ok in H as (specs & s3 & Hg & H).
      assert (H2 : J s2) by (eapply (keep _ _ (L_expect _ _ _ _ _ OPS _ _ _ _ _ _ HC _ _)); eassumption).
      apply decl_group_docs in Hg; [ | exact H2 | constructor ].
      apply bind_ok in H as (? & ? & _ & H). apply bind_ok in H as (? & ? & _ & H).
      injection H as <- _. left. split; [ | exact Hg ].
      exists docs. split; [ reflexivity | ]. exact (drained_documented s docs s0 Hs Hdr).
    + apply bind_ok in H as (sp & s2 & Hsp & H). apply bind_ok in H as (? & ? & _ & H).
      injection H as <- _. right. split; [ reflexivity | ].
      exists (set_docs sp [docs]). split; [ reflexivity | ].
      rewrite n_tag_set_docs. apply spec_site in Hsp as [Hts _]. split; [ exact Hts | ].
      exists docs. split; [ apply n_docs_set_docs | exact (drained_documented s docs s0 Hs Hdr) ].
  - right. split; [ exact Hd | ]. exists sp. split; [ exact Hk | ]. split; [ exact Hts | ].
    exists (fst (drain OPS s)). split; [ exact Hds | apply drain_docs, Hs ].
Qed.

Lemma top_decl_docs (s : pstate) d s' :
  J s -> parse_top_decl OPS P s = Ok d s' -> decl_ok d.
Proof.
  intros Hs. unfold parse_top_decl. hide_nats.
  destruct (s_cur s) as [[p t]|]; [ | discriminate ].
  destruct t as [c|kw|o|lk v]; try discriminate.
  destruct kw; try discriminate; intros H.
  - right. exists SKConst. exact (decl_docs_full SKConst s d s' Hs H).
  - left. pose proof (func_decl_site _ _ _ _ _ OPS P s d s' H) as [Ht Hd].
    split; [ exact Ht | ]. exists (fst (drain OPS s)). split; [ exact Hd | apply drain_docs, Hs ].
  - right. exists SKType. exact (decl_docs_full SKType s d s' Hs H).
  - right. exists SKVar. exact (decl_docs_full SKVar s d s' Hs H).
Qed.

Lemma decls_loop_docs : forall fuel acc (s : pstate) l s',
  J s -> Forall decl_ok acc -> decls_loop OPS P fuel acc s = Ok l s' -> Forall decl_ok l.
Proof.
  induction fuel as [|fuel IH]; intros acc s l s' Hs Hacc H; [ discriminate | ].
  cbn [decls_loop] in H. destruct (s_cur s) as [c|] eqn:Hc.
  - apply bind_ok in H as (d & s1 & Hd & H).
    assert (H1 : J s1) by (eapply (keep _ _ (L_parse_top_decl _ _ _ _ _ OPS _ _ _ _ _ _ HC P HG)); eassumption).
    eapply IH; [ exact H1 | | exact H ].
    apply Forall_app. split; [ exact Hacc | ]. constructor; [ | constructor ].
    exact (top_decl_docs s d s1 Hs Hd).
  - injection H as <- _. exact Hacc.
Qed.

Lemma parse_file_decls (s : pstate) n s' :
  J s -> parse_file OPS P s = Ok n s' ->
  exists pkg imports decls,
    n_kids n = [pkg; nlist imports; nlist decls] /\ Forall decl_ok decls.
Proof.
  intros Hs. unfold parse_file. intros H.
  apply bind_ok in H as ([] & s0 & Hst & H).
  assert (H0 : J s0) by (eapply (keep _ _ (L_ensure_started _ _ _ _ _ OPS _ _ _ _ _ _ HC)); eassumption).
  destruct (drain OPS s0) as [docs s1] eqn:Hdr.
  assert (H1 : J s1) by (eapply keep_drain; eassumption).
  apply bind_ok in H as (pkg & s2 & Hp & H).
  assert (H2 : J s2) by (eapply (keep _ _ (L_parse_package _ _ _ _ _ OPS _ _ _ _ _ _ HC)); eassumption).
  apply bind_ok in H as (b & s3 & Hsk & H).
  assert (H3 : J s3) by (eapply (keep _ _ (L_skipped _ _ _ _ _ OPS _ _ _ _ _ _ HC _)); eassumption).
  apply bind_ok in H as (imports & s4 & Him & H).
  assert (H4 : J s4) by (eapply (keep _ _ (L_imports_loop _ _ _ _ _ OPS _ _ _ _ _ _ HC _ _)); eassumption).
  apply bind_ok in H as (decls & s5 & Hde & H).
  injection H as <- _. exists pkg, imports, decls. split; [ reflexivity | ].
  eapply decls_loop_docs; [ exact H4 | constructor | exact Hde ].
Qed.

End TopLevel.

(* from the initial state *)
Theorem parse_file_docs lines E depth a0 d0 elems (term : sterm N (list Policy.comment) E) n s' :
  c_prev d0 = None -> c_lead d0 = [] ->
  parse_file (policy_ops lines) (parsers_at (policy_ops lines) depth)
             (init_state a0 d0 elems term) = Ok n s' ->
  (exists pos a1 t g r,
      elems = SE pos a1 t g :: r /\
      n_docs n = [lead_spec (line_c lines) (line_start_c lines) None g (Some pos)]) /\
  exists pkg imports decls,
    n_kids n = [pkg; nlist imports; nlist decls] /\
    Forall (decl_ok lines E elems term) decls.
Proof.
  intros Hp Hl H. split.
  - destruct (package_docs lines E depth a0 d0 elems term n s' Hp H)
      as (pos & a1 & t & g & r & He & _ & Hd). eauto 8.
  - eapply parse_file_decls; [ | exact H ]. apply doc_inv_init, Hl.
Qed.

(* ================================================================== G *)

(* the property, in terms of Policy.p_next *)
Section Corollaries.
Variable lines : list N.
Notation Lc := (line_c lines).
Notation LSc := (line_start_c lines).
Notation OPS := (policy_ops lines).

(* the token starts more than one line below the end of the last comment *)
Theorem p_next_blank_line d prev g p c :
  last_opt g = Some c -> ~ trailing LSc (eff_prev d prev) c ->
  Lc (cend c) + 1 < Lc p ->
  c_lead (p_next lines d prev g (Some p)) = [].
Proof.
  intros Hl Ht Hlt. rewrite p_next_lead.
  rewrite (lead_spec_blank_line_last Lc LSc _ g p c Hl Ht); [ reflexivity | ].
  unfold attached. lia.
Qed.

(* a blank line between two comments: the comments above it are dropped *)
Theorem p_next_detached d prev g1 c1 c2 g2 tokpos :
  Lc (cend c1) + 1 < Lc (fst c2) ->
  c_lead (p_next lines d prev (g1 ++ c1 :: c2 :: g2) tokpos)
  = c_lead (p_next lines d prev (c2 :: g2) tokpos).
Proof.
  intros Hlt. rewrite !p_next_lead. f_equal. apply lead_spec_detached. unfold adjacent. lia.
Qed.

(* a comment that starts on the line on which the previous token ends *)
Theorem p_next_trailing d prev g tokpos c :
  In c (c_lead (p_next lines d prev g tokpos)) -> ~ trailing LSc (eff_prev d prev) c.
Proof. rewrite p_next_lead, <- in_rev. apply lead_spec_not_trailing. Qed.

(* the unbroken run directly above the token, all of it *)
Theorem p_next_whole d prev g p :
  is_run Lc g -> (forall c, In c g -> ~ trailing LSc (eff_prev d prev) c) ->
  (forall c, last_opt g = Some c -> Lc p <= Lc (cend c) + 1) ->
  c_lead (p_next lines d prev g (Some p)) = rev g.
Proof.
  intros Hr Ht Ha. rewrite p_next_lead. f_equal. apply lead_spec_whole; assumption.
Qed.

(* exactly the documentation of the current token, right after Parser::next *)
Theorem docs_after_next E (s s1 : Core.pstate N (list Policy.comment) cstate E)
        (n : node N (list Policy.comment)) :
  next OPS s = Ok tt s1 -> n_docs n = [fst (drain OPS s1)] ->
  match s_mark s1 with
  | SE pos a1 t g :: _ =>
      n_docs n = [lead_spec Lc LSc (eff_prev (s_d s) (prev_end s)) g (Some pos)]
  | [] => True
  end.
Proof.
  intros Hn Hd. apply next_synced in Hn as [_ Hl].
  destruct (s_mark s1) as [|[pos a1 t g] r]; [ exact I | ].
  rewrite Hd. unfold drain. cbn [d_drain policy_ops]. rewrite p_drain_spec. cbn [fst].
  rewrite Hl, rev_involutive. reflexivity.
Qed.

End Corollaries.

(* a token without comments in front of it: synced means no lead at all *)
Lemma synced_no_comments lines E (s : Core.pstate N (list Policy.comment) cstate E) pos a1 t r :
  s_mark s = SE pos a1 t [] :: r -> synced lines E s -> c_lead (s_d s) = [].
Proof.
  intros Hm. unfold synced. rewrite Hm. intros (prev & g' & [-> | (c & Hc)] & ->);
    [ reflexivity | discriminate ].
Qed.

(* ================================================================== H *)

(* In a scanned file the corners with a trailing comment after a kept one
   cannot occur: on a strictly ascending line table the line start is monotone
   in the offset, so for comments in source order the documentation is a
   contiguous suffix of the token's comments. *)
Section Contiguous.

Lemma last_or_default (l : list N) : forall d, last l d = d \/ In (last l d) l.
Proof.
  induction l as [|x l IH]; intros d; [ left; reflexivity | ].
  rewrite last_cons_default. destruct (IH x) as [-> | H]; right; [ left; reflexivity | right; exact H ].
Qed.

Lemma last_filter_ge (f : N -> bool) t d :
  (forall y, In y t -> d <= y) -> d <= last (filter f t) d.
Proof.
  intros Hd. destruct (last_or_default (filter f t) d) as [-> | H]; [ lia | ].
  apply filter_In in H as [H _]. apply Hd, H.
Qed.

Lemma last_filter_mono p q : p <= q -> forall t d,
  sorted_strict t -> (forall y, In y t -> d <= y) ->
  last (filter (fun x => x <=? p) t) d <= last (filter (fun x => x <=? q) t) d.
Proof.
  intros Hpq. induction t as [|x t IH]; intros d Hs Hd; [ cbn; lia | ].
  assert (Hx : d <= x) by (apply Hd; left; reflexivity).
  assert (Ht : forall y, In y t -> x <= y).
  { intros y Hy. pose proof (sorted_strict_head _ _ Hs y Hy). lia. }
  cbn [filter]. destruct (N.leb_spec x p) as [Hxp | Hxp].
  - assert (Hxq : (x <=? q) = true) by (apply N.leb_le; lia).
    rewrite Hxq, !last_cons_default. apply IH; [ eapply sorted_strict_tail; exact Hs | exact Ht ].
  - assert (Hnone : filter (fun y => y <=? p) t = []).
    { apply LineProofs.filter_none. intros y Hy. apply N.leb_gt. apply Ht in Hy. lia. }
    rewrite Hnone. cbn [last]. destruct (x <=? q).
    + rewrite last_cons_default.
      apply N.le_trans with (m := x); [ exact Hx | apply last_filter_ge, Ht ].
    + apply last_filter_ge. intros y Hy. apply Hd. right. exact Hy.
Qed.

Lemma last_le_le tbl p : last_le tbl p <= p.
Proof.
  unfold last_le, entries_le.
  destruct (last_or_default (filter (fun x => x <=? p) tbl) 0) as [-> | H]; [ lia | ].
  apply filter_In in H as [_ H]. apply N.leb_le, H.
Qed.

Lemma last_le_mono tbl p q : sorted_strict tbl -> p <= q -> last_le tbl p <= last_le tbl q.
Proof.
  intros Hs Hpq. unfold last_le, entries_le.
  apply last_filter_mono; [ exact Hpq | exact Hs | intros; lia ].
Qed.

(* the scanner's line start is the last table entry at or below the offset *)
Lemma line_start_c_last_le lines p :
  sorted_strict lines -> line_start_c lines p = last_le lines p.
Proof.
  intros Hs. unfold line_start_c. rewrite line_info_sorted by exact Hs. cbn [snd].
  pose proof (last_le_le lines p). lia.
Qed.

Lemma line_start_c_mono lines p q :
  sorted_strict lines -> p <= q -> line_start_c lines p <= line_start_c lines q.
Proof.
  intros Hs Hpq. rewrite !line_start_c_last_le by exact Hs. apply last_le_mono; assumption.
Qed.

(* comments in source order *)
Definition pos_sorted (g : list Policy.comment) : Prop :=
  forall pre c1 mid c2 post, g = pre ++ c1 :: mid ++ c2 :: post -> fst c1 <= fst c2.

Theorem docs_contiguous lines prev g :
  sorted_strict lines -> pos_sorted g ->
  exists pre, g = pre ++ doc_candidates (line_c lines) (line_start_c lines) prev g.
Proof.
  intros Hs Hg. apply candidates_suffix.
  intros pre c1 mid c2 post Hd. apply line_start_c_mono; [ exact Hs | eapply Hg; exact Hd ].
Qed.

End Contiguous.
