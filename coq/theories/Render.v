(* Canonical text forms used by the correspondence check.  Everything the
   extracted model prints is rendered here, in Gallina, so that the OCaml
   driver only moves bytes. *)
From Coq Require Import List NArith Bool.
From GoSyn Require Import Token Tok Scanner.
Import ListNotations.
Open Scope N_scope.

Fixpoint dec_aux (fuel : nat) (n : N) (acc : str) : str :=
  match fuel with
  | O => acc
  | S f =>
      let acc' := (48 + n mod 10) :: acc in
      if n <? 10 then acc' else dec_aux f (n / 10) acc'
  end.
Definition dec (n : N) : str := dec_aux (S (N.size_nat n)) n [].

Definition hex_digit_char (d : N) : N := if d <? 10 then 48 + d else 87 + d.
Fixpoint hex_aux (fuel : nat) (n : N) (acc : str) : str :=
  match fuel with
  | O => acc
  | S f =>
      let acc' := hex_digit_char (n mod 16) :: acc in
      if n <? 16 then acc' else hex_aux f (n / 16) acc'
  end.
Definition hex (n : N) : str := hex_aux (S (N.size_nat n)) n [].

(* printable ASCII except space, backslash and parentheses stays; the rest is \u{hex} *)
Definition esc_char (c : N) : str :=
  if (33 <=? c) && (c <=? 126) && negb (c =? 92) && negb (c =? 40) && negb (c =? 41)
  then [c]
  else [92; 117; 123] ++ hex c ++ [125].
Definition esc (s : str) : str := flat_map esc_char s.

Definition sp : str := [32].
Fixpoint join (sep : str) (l : list str) : str :=
  match l with
  | [] => []
  | [a] => a
  | a :: l' => a ++ sep ++ join sep l'
  end.

Definition lk_tag (k : litkind) : N :=
  match k with
  | LIdent => 73    (* I *)
  | LString => 83   (* S *)
  | LInteger => 78  (* N *)
  | LFloat => 70    (* F *)
  | LImag => 77     (* M *)
  | LChar => 82     (* R *)
  end.

Definition render_tok (pt : N * token) : str :=
  let '(p, t) := pt in
  dec p ++ [58] ++
  match t with
  | TComment s => 67 :: esc s
  | TKeyword k => 75 :: kw_str k
  | TOperator o => 79 :: op_str o
  | TLiteral k s => lk_tag k :: esc s
  end.

Section R.
Variable U : uclass.

(* "tok tok ... | EOF end=<pos> | l1 l2 ..."   or   "... | ERR <line> <col> | ..." *)
Definition render_scan (src : str) : str :=
  let '(ts, e) := scan_all U src in
  let toks := join sp (map render_tok ts) in
  let tail :=
    match e with
    | SE_Eof s =>
        [69; 79; 70; 32; 101; 110; 100; 61] ++ dec (s_pos s) ++ [32; 124; 32] ++
        join sp (map dec (rev (s_lines s)))
    | SE_Err p k s =>
        let '(ln, col) := line_info (rev (s_lines s)) p in
        [69; 82; 82; 32] ++ dec ln ++ sp ++ dec col ++ [32; 124; 32] ++
        join sp (map dec (rev (s_lines s)))
    | SE_Fuel => [70; 85; 69; 76]
    end in
  toks ++ [32; 124; 32] ++ tail.
End R.
