From Coq Require Import List NArith.
From GoSyn Require Import Token Tok Scanner Ast Core Policy Entry Param.
From GoSyn.proofs Require Import FreeTheorems.
From GoSyn.props Require Import C13.
Check C13_layout : forall (e : entry) (p1 p2 : prepared),
  same_stream p1 p2 -> outcome_of (run_entry e p1) = outcome_of (run_entry e p2).
Check C13_stream_is_tokens : forall U src p,
  prepare U src = Some p ->
  map elem_tok (pr_elems p) =
  filter (fun t => negb (is_comment t)) (map (fun x => snd (fst x)) (fst (scan_all_ext U src))).
Check C13_core_layout_free :
  forall A1 G1 D1 C1 E1 A2 G2 D2 C2 E2 (O1 : ops A1 G1 D1 C1) (O2 : ops A2 G2 D2 C2) d
         (s1 : pstate A1 G1 D1 E1) (s2 : pstate A2 G2 D2 E2),
  same_tokens s1 s2 ->
  outcome_of (parse_file A1 G1 D1 C1 E1 O1 (parsers_at A1 G1 D1 C1 E1 O1 d) s1) =
  outcome_of (parse_file A2 G2 D2 C2 E2 O2 (parsers_at A2 G2 D2 C2 E2 O2 d) s2).
