From Coq Require Import List NArith Bool.
From GoSyn Require Import Token Tok Dir.
From GoSyn.props Require Import C18.
Import ListNotations.
Check C18_all_or_nothing_partial : forall parse is_go l acc name e,
  In (name, e) l -> is_go name = true -> file_pkg parse e = None -> parse_dir parse is_go l acc = None.
Check C18_groups_partial : forall parse is_go l m pkg,
  parse_dir parse is_go l [] = Some m -> files_of m pkg = declaring parse is_go pkg l.
