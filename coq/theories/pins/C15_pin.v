From Coq Require Import List NArith.
From GoSyn Require Import Token Tok Scanner Ast Core Policy Entry Param.
From GoSyn.proofs Require Import FreeTheorems.
From GoSyn.props Require Import C15.
Open Scope N_scope.
Check C15_shift_file_partial :
  forall G1 D1 C1 E1 G2 D2 C2 E2 (O1 : ops N G1 D1 C1) (O2 : ops N G2 D2 C2),
  (forall a, a_plus2 _ _ _ _ O1 a = a + 2) -> (forall a, a_plus2 _ _ _ _ O2 a = a + 2) ->
  forall k d (s1 : pstate N G1 D1 E1) (s2 : pstate N G2 D2 E2) n1 t1,
  state_rel (shiftR k) s1 s2 ->
  parse_file N G1 D1 C1 E1 O1 (parsers_at N G1 D1 C1 E1 O1 d) s1 = Ok n1 t1 ->
  exists n2 t2,
    parse_file N G2 D2 C2 E2 O2 (parsers_at N G2 D2 C2 E2 O2 d) s2 = Ok n2 t2 /\
    erase n2 = erase n1 /\ positions n2 = map (fun a => a + k) (positions n1).
Check C15_entry_tokens_only_partial : forall (e : entry) (p1 p2 : prepared),
  same_stream p1 p2 -> outcome_of (run_entry e p1) = outcome_of (run_entry e p2).
