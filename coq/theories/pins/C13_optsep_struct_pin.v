From Coq Require Import List.
From GoSyn Require Import Token Tok Ast Core.
From GoSyn.spec Require Import Prec Print Print2 Print3.
From GoSyn.proofs Require Import RoundTripTypesBase RoundTripBase2 OptionalSepStruct.
From GoSyn.props Require Import C13_optsep_struct.
Import ListNotations.

(* TBP_toks is the body of RoundTripTypesBase.TBP with the token list as a parameter *)
Check (fun A G D C E OPS X printX shapeX depthX needX t => eq_refl :
  TBP A G D C E OPS X printX shapeX depthX needX t =
  TBP_toks A G D C E OPS X shapeX depthX needX t (printT printX t)).

Check (eq_refl : TBP_toks = fun (A G D C E : Type) (OPS : ops A G D C) (X : Type)
  (shapeX : X -> shapeT) (depthX needX : X -> nat) (t : typ X) (toks : list token) =>
  forall d (s : pstate A G D E) rst,
  needT needX t <= S d -> at_toks s (toks ++ rst) -> tfollow t rst ->
  s_depth A G D E s + depthT depthX t <= S MAX_NESTING ->
  s_ln A G D E s <= s_lp A G D E s /\ s_lp A G D E s + depthT depthX t <= s_ln A G D E s + 65 ->
  exists n s1, type_or_none_body A G D C E OPS (parsers_at A G D C E OPS d) s = Ok (Some n) s1 /\
               erase n = shapeTy shapeX t /\ at_toks s1 rst /\ frame s s1).

(* printF0 is printF without the field's ";" *)
Check (eq_refl : @printF0 = fun (X : Type) (printX : X -> list token) (f : sfield (typ X)) =>
  match f with
  | Field names t tag => printNames names ++ printT printX t ++ printTag tag
  end).
Check (fun X (printX : X -> list token) names t tag => eq_refl :
  printF printX (Field names t tag) =
  printNames names ++ printT printX t ++ printTag tag ++ [tk OSemiColon]).

(* the printed spelling has the ";" that the theorem's spelling omits *)
Check (fun (fs : list (sfield (typ exp2))) f => eq_refl :
  printT print2 (TStruct (fs ++ [f])) =
  kw KStruct :: tk OBraceLeft :: flat_map (printF print2) (fs ++ [f]) ++ [tk OBraceRight]).

Check C13_struct_last_semicolon : forall (A G D C E : Type) (OPS : ops A G D C)
    (fs : list (sfield (typ exp2))) (f : sfield (typ exp2)),
  wfT (wf2 false) (TStruct (fs ++ [f])) ->
  TBP_toks A G D C E OPS exp2 shape2 depth2 need2 (TStruct (fs ++ [f]))
    (kw KStruct :: tk OBraceLeft :: flat_map (printF print2) fs ++ printF0 print2 f ++ [tk OBraceRight]).

(* printI0 is printI without the element's ";" *)
Check (eq_refl : @printI0 = fun (X : Type) (printX : X -> list token) (e : ielem (typ X)) =>
  match e with
  | IMethod name s => ident_tok name :: printSig printX s
  | IUnion terms => printUnion printX terms
  end).
Check (fun X (printX : X -> list token) name s => eq_refl :
  printI printX (IMethod name s) = ident_tok name :: printSig printX s ++ [tk OSemiColon]).
Check (fun X (printX : X -> list token) terms => eq_refl :
  printI printX (IUnion terms) = printUnion printX terms ++ [tk OSemiColon]).

Check C13_interface_last_semicolon : forall (A G D C E : Type) (OPS : ops A G D C)
    (es : list (ielem (typ exp2))) (e : ielem (typ exp2)),
  wfT (wf2 false) (TInterface (es ++ [e])) ->
  TBP_toks A G D C E OPS exp2 shape2 depth2 need2 (TInterface (es ++ [e]))
    (kw KInterface :: tk OBraceLeft :: flat_map (printI print2) es ++ printI0 print2 e ++ [tk OBraceRight]).
