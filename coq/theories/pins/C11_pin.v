From Coq Require Import List NArith Sorted.
From GoSyn Require Import Token Tok Scanner Ast Core Policy Entry.
From GoSyn.proofs Require Import Lift CommentProofs.
From GoSyn.props Require Import C11.
Check C11_complete : forall (p : prepared) n s',
  stream_sorted p ->
  run_entry EFile p = Ok n s' ->
  rev (c_all (s_d s')) = all_comments p.
Check C11_prepared_sorted : forall U src p, prepare U src = Some p -> stream_sorted p.
Check C11_prepared_comments : forall U src p, prepare U src = Some p ->
  all_comments p = comments_of (fst (scan_all_ext U src)).
Check C11_source : forall U src p n s',
  prepare U src = Some p ->
  run_entry EFile p = Ok n s' ->
  rev (c_all (s_d s')) = comments_of (fst (scan_all_ext U src)).
Check C11_no_duplicates : forall (p : prepared) n s',
  stream_sorted p ->
  run_entry EFile p = Ok n s' ->
  NoDup (map fst (rev (c_all (s_d s')))).
Check C11_accepted_eof : forall (p : prepared) n s',
  stream_sorted p ->
  run_entry EFile p = Ok n s' ->
  exists a g, pr_term p = TEof a g.
Check C11_entry_prefix : forall e (p : prepared) n s',
  stream_sorted p ->
  run_entry e p = Ok n s' ->
  exists rest, all_comments p = rev (c_all (s_d s')) ++ rest.
Check C11_entry_prefix_err : forall e (p : prepared) er s',
  stream_sorted p ->
  run_entry e p = Err er s' ->
  exists rest, all_comments p = rev (c_all (s_d s')) ++ rest.
(* the definitions the statements rest on *)
Check eq_refl : all_comments = fun p =>
  concat (map se_group (pr_elems p)) ++ term_group (pr_term p).
Check eq_refl : stream_sorted = fun p => StronglySorted N.lt (map fst (all_comments p)).
