From Coq Require Import List NArith.
From GoSyn Require Import Token Tok Ast Core.
From GoSyn.proofs Require Import Lift StreamProofs ErrPosBase ErrPosStepA ErrPosStepB ErrPosProofs.
From GoSyn.props Require Import C16_tokens.
Import ListNotations.

Check C16_parse_file_error :
  forall (A G D C E : Type) (OPS : ops A G D C) a0 d0 (elems : list (selem A G)) (term : sterm A G E)
         d e s',
  parse_file OPS (parsers_at OPS d) (init_state a0 d0 elems term) = Err e s' ->
  err_located OPS elems term e.
Check C16_expression_error :
  forall (A G D C E : Type) (OPS : ops A G D C) a0 d0 (elems : list (selem A G)) (term : sterm A G E)
         d e s',
  entry_expression OPS (parsers_at OPS d) (init_state a0 d0 elems term) = Err e s' ->
  err_located OPS elems term e.
Check C16_stmt_error :
  forall (A G D C E : Type) (OPS : ops A G D C) a0 d0 (elems : list (selem A G)) (term : sterm A G E)
         d e s',
  entry_stmt OPS (parsers_at OPS d) (init_state a0 d0 elems term) = Err e s' ->
  err_located OPS elems term e.
Check C16_stmts_error :
  forall (A G D C E : Type) (OPS : ops A G D C) d (elems : list (selem A G)) (term : sterm A G E)
         s e s',
  stmts_from OPS d elems term s ->
  entry_stmt OPS (parsers_at OPS d) s = Err e s' -> err_located OPS elems term e.

(* the meaning of [err_located] is pinned by unfolding it *)
Check (fun (A G D C E : Type) (OPS : ops A G D C) elems term e =>
  eq_refl : err_located (E:=E) OPS elems term e =
  ((forall p t site, e = PUnexpected p (Some t) site -> exists a1 g, In (SE p a1 t g) elems) /\
   (forall p site, e = PUnexpected p None site -> exists g, term = TEof p g) /\
   (forall p site, e = PElse p site ->
      match site_class site with
      | SEnd => (exists a0 t g, In (SE a0 p t g) elems) \/ (exists g, term = TEof p g)
      | SNode => (exists t a1 g, In (SE p a1 t g) elems) \/ (exists g, term = TEof p g)
      | SPlus2 => exists q, ((exists a1 g, In (SE q a1 (TKeyword KGo) g) elems) \/
                             (exists a1 g, In (SE q a1 (TKeyword KDefer) g) elems)) /\
                            p = a_plus2 OPS q
      end) /\
   (forall x, e = PScan x -> exists g, term = TErr x g))).

(* the table of sites: go/defer; else_error_at; everything else is Parser::else_error *)
Check eq_refl : map site_class [84; 4; 5; 58; 66; 72; 74; 75; 77; 78; 96; 97; 114; 121; 123; 129; 132]
  = SPlus2 :: repeat SNode 16.
Check eq_refl : map site_class [3; 10; 11; 12; 13; 15; 23; 24; 25; 31; 35; 55; 64; 70; 76; 79; 88;
                                89; 91; 92; 95; 103; 104; 117; 119; 128; 133; 140; 141; 142; 143; 144]
  = repeat SEnd 32.

Check C16_unexpected_token :
  forall (A G D C E : Type) (OPS : ops A G D C) a0 d0 (elems : list (selem A G)) (term : sterm A G E)
         d p t site s',
  parse_file OPS (parsers_at OPS d) (init_state a0 d0 elems term)
    = Err (PUnexpected p (Some t) site) s' ->
  exists a1 g, In (SE p a1 t g) elems.
Check C16_unexpected_eof :
  forall (A G D C E : Type) (OPS : ops A G D C) a0 d0 (elems : list (selem A G)) (term : sterm A G E)
         d p site s',
  parse_file OPS (parsers_at OPS d) (init_state a0 d0 elems term)
    = Err (PUnexpected p None site) s' ->
  exists g, term = TEof p g.
Check C16_else :
  forall (A G D C E : Type) (OPS : ops A G D C) a0 d0 (elems : list (selem A G)) (term : sterm A G E)
         d p site s',
  parse_file OPS (parsers_at OPS d) (init_state a0 d0 elems term) = Err (PElse p site) s' ->
  (exists t a1 g, In (SE p a1 t g) elems) \/ (exists a0 t g, In (SE a0 p t g) elems) \/
  (exists g, term = TEof p g) \/
  (exists q t a1 g, In (SE q a1 t g) elems /\ p = a_plus2 OPS q).
Check C16_scan_error :
  forall (A G D C E : Type) (OPS : ops A G D C) a0 d0 (elems : list (selem A G)) (term : sterm A G E)
         d x s',
  parse_file OPS (parsers_at OPS d) (init_state a0 d0 elems term) = Err (PScan x) s' ->
  exists g, term = TErr x g.
Check C16_tree_positions :
  forall (A G D C E : Type) (OPS : ops A G D C) a0 d0 (elems : list (selem A G)) (term : sterm A G E)
         d x s',
  parse_file OPS (parsers_at OPS d) (init_state a0 d0 elems term) = Ok x s' ->
  nok elems term x.
Check C16Examples.C16_ex_middle. Check C16Examples.C16_ex_early.
