From Coq Require Import List NArith Arith.
From GoSyn Require Import Token Tok Scanner Ast Core Policy Entry Param.
From GoSyn.proofs Require Import FreeTheorems PrecProofs.
From GoSyn.spec Require Import Prec.
From GoSyn.props Require Import C03.
Check C03_layout_partial : forall (e : entry) (p1 p2 : prepared),
  same_stream p1 p2 -> outcome_of (run_entry e p1) = outcome_of (run_entry e p2).
