From Coq Require Import List String NArith Bool.
From GoSyn Require Import Serde.
From GoSyn.props Require Import C20.
Check C20_roundtrip : forall S t v,
  wf_schema S = true -> wf_ty S t = true -> has_type S t v ->
  de S t (ser S t v) = Some v.
Check C20_roundtrip_named : forall S n v,
  wf_schema S = true -> has_type S (TNamed n) v ->
  de S (TNamed n) (ser S (TNamed n) v) = Some v.
Check C20_reserialize : forall S t v v',
  wf_schema S = true -> wf_ty S t = true -> has_type S t v ->
  de S t (ser S t v) = Some v' -> ser S t v' = ser S t v.
Check C20_reserialize_named : forall S n v v',
  wf_schema S = true -> has_type S (TNamed n) v ->
  de S (TNamed n) (ser S (TNamed n) v) = Some v' ->
  ser S (TNamed n) v' = ser S (TNamed n) v.
Check C20_ser_injective : forall S t v1 v2,
  wf_schema S = true -> wf_ty S t = true ->
  has_type S t v1 -> has_type S t v2 ->
  ser S t v1 = ser S t v2 -> v1 = v2.
Check C20_closed_reachable : forall S flags R root,
  closed_ok S flags R = true -> memb root R = true ->
  forall n, reachable S root n ->
    In n R /\ (exists d, lookup n S = Some d) /\ flag_ok flags n = true.
Check C20_de_sound : forall S t j v, de S t j = Some v -> has_type S t v.
Check C20_de_ser_de : forall S t j v,
  wf_schema S = true -> wf_ty S t = true ->
  de S t j = Some v -> de S t (ser S t v) = Some v.
Check C20_roundtrip_limited : forall lim S t v,
  wf_schema S = true -> wf_ty S t = true -> has_type S t v ->
  jdepth (ser S t v) < lim ->
  de_limited lim S t (ser S t v) = Some v.
Check C20_limit_exceeded : forall lim S t v,
  lim <= jdepth (ser S t v) -> de_limited lim S t (ser S t v) = None.
(* the model's entry points have the advertised types *)
Check ser : schema -> ty -> value -> json.
Check de : schema -> ty -> json -> option value.
Check has_type : schema -> ty -> value -> Prop.
Check has_type_b : schema -> ty -> value -> bool.
Check wf_schema : schema -> bool.
