From Coq Require Import List NArith.
From GoSyn Require Import Token Tok Scanner Ast Core Policy Entry Param.
From GoSyn.proofs Require Import FreeTheorems LexProofs.
From GoSyn.spec Require Import Lex.
From GoSyn.props Require Import C05.
Open Scope N_scope.
Check C05_positions_from_stream_partial :
  forall G D C E (O : ops N G D C), (forall a, a_plus2 _ _ _ _ O a = a + 2) ->
  forall d (s : pstate N G D E) n t,
  parse_file N G D C E O (parsers_at N G D C E O d) s = Ok n t ->
  Forall (from_stream (state_positions s)) (positions n).
Check C05_token_pos : forall U src toks e,
  scan_all_ext U src = (toks, e) -> tiling (is_whitespace U) src 0 toks.
