From Coq Require Import List Arith NArith Lia Bool.
From GoSyn Require Import Token Tok Ast Core.
From GoSyn.proofs Require Import ShapeProofs.
From GoSyn.props Require Import C03_shapes.
Import ListNotations.

Check C03_reassoc_some_iff :
  forall l l' : list nat,
  Forall (fun d : nat => d <= 2) l ->
  reassoc l = Some l' <->
  (exists (k : nat) (r : list nat), l = repeat 1 k ++ 0 :: r /\ l' = repeat 2 (S k) ++ r).
Check C03_reassoc_none_iff :
  forall l : list nat,
  Forall (fun d : nat => d <= 2) l ->
  reassoc l = None <->
  (exists (k : nat) (r : list nat), l = repeat 1 k ++ 2 :: r) \/
  (exists k : nat, l = repeat 1 k).
Check C03_reassoc_err_recv_iff :
  forall l : list nat,
  Forall (fun d : nat => d <= 2) l ->
  reassoc_err l = Some ErrRecv <-> (exists (k : nat) (r : list nat), l = repeat 1 k ++ 2 :: r).
Check C03_reassoc_err_elem_iff :
  forall l : list nat,
  Forall (fun d : nat => d <= 2) l ->
  reassoc_err l = Some ErrElem <-> (exists k : nat, l = repeat 1 k).
Check C03_reset_chan_arrow_spec :
  forall (A C E : Type) (typ : node A C) (pos : A),
  is_tag GTypeChannel typ = true ->
  match reset_chan_arrow A C E pos typ with
  | inl typ' =>
      reassoc (directions typ) = Some (directions typ') /\
      is_tag GTypeChannel typ' = true /\
      chan_elem typ' = chan_elem typ /\ undirected typ' = undirected typ
  | inr e =>
      reassoc (directions typ) = None /\ chan_err_of A E e = reassoc_err (directions typ)
  end.
Check C03_reset_chan_arrow_positions :
  forall (A C E : Type) (typ : node A C) (pos dflt : A),
  is_tag GTypeChannel typ = true ->
  chan_wf typ ->
  match reset_chan_arrow A C E pos typ with
  | inl typ' =>
      chan_wf typ' /\
      chan_poss dflt typ' = chan_poss dflt typ /\
      arrow_poss dflt typ' =
      shift_arrows A (reassoc_depth (directions typ)) pos (arrow_poss dflt typ)
  | inr e =>
      e =
      match reassoc_err (directions typ) with
      | Some ErrRecv =>
          PUnexpected (nth (reassoc_depth (directions typ)) (arrow_poss dflt typ) dflt)
            (Some (TOperator OArrow)) 71
      | _ =>
          PElse
            (nth (Init.Nat.pred (reassoc_depth (directions typ))) (arrow_poss dflt typ) dflt)
            72
      end
  end.
Check C03_read_spell :
  forall l : list nat,
  Forall (fun d : nat => d <= 2) l -> canon l -> read_chan (spell l) = Some l.
Check C03_reassoc_same_tokens :
  forall l l' : list nat, reassoc l = Some l' -> spell l' = CArrow :: spell l.
Check C03_read_arrow_spell :
  forall l : list nat,
  Forall (fun d : nat => d <= 2) l -> canon l -> read_chan (CArrow :: spell l) = reassoc l.
Check C03_reset_chan_arrow_reads :
  forall (A C E : Type) (typ : node A C) (pos : A),
  is_tag GTypeChannel typ = true ->
  Forall (fun d : nat => d <= 2) (directions typ) ->
  canon (directions typ) ->
  match reset_chan_arrow A C E pos typ with
  | inl typ' =>
      spell (directions typ') = CArrow :: spell (directions typ) /\
      read_chan (CArrow :: spell (directions typ)) = Some (directions typ') /\
      canon (directions typ') /\ Forall (fun d : nat => d <= 2) (directions typ')
  | inr _ => read_chan (CArrow :: spell (directions typ)) = None
  end.
Check C03_unary_arrow :
  forall (A G D C E : Type) (OPS : ops A G D C) (self : parsers A G D C E)
    (s s1 s2 : pstate A G D E) (pos : A) (x : node A C),
  s_cur A G D E s = Some (pos, TOperator OArrow) ->
  next A G D C E OPS s = Ok tt s1 ->
  k_unary A G D C E self s1 = Ok x s2 ->
  unary_body A G D C E OPS self s =
  (if is_tag GTypeChannel x
   then match reset_chan_arrow A C E pos x with
        | inl t => Ok t s2
        | inr e => Err e s2
        end
   else Ok (n_operation A C pos OArrow x None) s2).
Check C03_simple_stmt_inv :
  forall (A G D C E : Type) (OPS : ops A G D C) (self : parsers A G D C E)
    (s : pstate A G D E) (st : node A C) (s' : pstate A G D E),
  parse_simple_stmt A G D C E OPS self s = Ok st s' ->
  exists (l : list (node A C)) (s1 : pstate A G D E) (pos : A) (tok : token),
    expression_list A G D C E OPS self s = Ok l s1 /\
    s_cur A G D E s1 = Some (pos, tok) /\
    match classify_simple tok with
    | CAssign op =>
        exists (s2 : pstate A G D E) (r : list (node A C)),
          next A G D C E OPS s1 = Ok tt s2 /\
          st = mk A C GAssign [pos] [AOp op] [nlist l; nlist r] /\
          length r <= length l /\
          (op = ODefine -> forallb (is_tag GIdent) l = true) /\
          (if cur_is A G D E s2 (KKw KRange) && (op_eqb op OAssign || op_eqb op ODefine)
           then
            exists (pr : A) (s2' : pstate A G D E) (x : node A C),
              expect A G D C E OPS (KKw KRange) 73 s2 = Ok pr s2' /\
              k_expr A G D C E self s2' = Ok x s' /\ r = [mk A C GRange [pr] [] [x]]
           else expression_list A G D C E OPS self s2 = Ok r s')
    | CLabel =>
        exists (e : node A C) (s2 : pstate A G D E) (stmt : node A C),
          l = [e] /\
          is_tag GIdent e = true /\
          next A G D C E OPS s1 = Ok tt s2 /\
          k_stmt A G D C E self s2 = Ok stmt s' /\ st = mk A C GLabel [pos] [] [e; stmt]
    | CSend =>
        exists (e : node A C) (s2 : pstate A G D E) (v : node A C),
          l = [e] /\
          next A G D C E OPS s1 = Ok tt s2 /\
          k_expr A G D C E self s2 = Ok v s' /\ st = mk A C GSend [pos] [] [e; v]
    | CIncDec op =>
        exists e : node A C,
          l = [e] /\
          next A G D C E OPS s1 = Ok tt s' /\ st = mk A C GIncDec [pos] [AOp op] [e]
    | CExpr => exists e : node A C, l = [e] /\ s' = s1 /\ st = mk A C GExprStmt [] [] [e]
    end.
Check C03_simple_stmt_kind :
  forall (A G D C E : Type) (OPS : ops A G D C) (self : parsers A G D C E)
    (s : pstate A G D E) (st : node A C) (s' : pstate A G D E),
  parse_simple_stmt A G D C E OPS self s = Ok st s' ->
  exists (l : list (node A C)) (s1 : pstate A G D E) (pos : A) (tok : token),
    expression_list A G D C E OPS self s = Ok l s1 /\
    s_cur A G D E s1 = Some (pos, tok) /\
    n_tag st = simple_tag (classify_simple tok) /\ n_ats st = simple_ats (classify_simple tok).
Check C03_expression_list_nonempty :
  forall (A G D C E : Type) (OPS : ops A G D C) (self : parsers A G D C E)
    (s : pstate A G D E) (l : list (node A C)) (s' : pstate A G D E),
  expression_list A G D C E OPS self s = Ok l s' -> 1 <= length l.
Check C03_ss_eof :
  forall (A G D C E : Type) (OPS : ops A G D C) (self : parsers A G D C E)
    (s s1 : pstate A G D E) (l : list (node A C)),
  expression_list A G D C E OPS self s = Ok l s1 ->
  s_cur A G D E s1 = None ->
  parse_simple_stmt A G D C E OPS self s = Err (else_error A G D E s1 76) s1.
Check C03_ss_assign :
  forall (A G D C E : Type) (OPS : ops A G D C) (self : parsers A G D C E)
    (s s1 : pstate A G D E) (l : list (node A C)),
  expression_list A G D C E OPS self s = Ok l s1 ->
  forall (pos : A) (op : operator) (s2 : pstate A G D E) (r : list (node A C))
    (s3 : pstate A G D E),
  s_cur A G D E s1 = Some (pos, TOperator op) ->
  is_assign_op op = true ->
  next A G D C E OPS s1 = Ok tt s2 ->
  cur_is A G D E s2 (KKw KRange) && (op_eqb op OAssign || op_eqb op ODefine) = false ->
  expression_list A G D C E OPS self s2 = Ok r s3 ->
  (op = ODefine -> forallb (is_tag GIdent) l = true) ->
  parse_simple_stmt A G D C E OPS self s =
  (if length l <? length r
   then Err (else_error_at A E pos 77) s3
   else Ok (mk A C GAssign [pos] [AOp op] [nlist l; nlist r]) s3).
Check C03_ss_define_err :
  forall (A G D C E : Type) (OPS : ops A G D C) (self : parsers A G D C E)
    (s s1 : pstate A G D E) (l : list (node A C)),
  expression_list A G D C E OPS self s = Ok l s1 ->
  forall (pos : A) (s2 : pstate A G D E) (r : list (node A C)) (s3 : pstate A G D E)
    (l1 : list (node A C)) (e0 : node A C) (l2 : list (node A C)),
  s_cur A G D E s1 = Some (pos, TOperator ODefine) ->
  next A G D C E OPS s1 = Ok tt s2 ->
  cur_is A G D E s2 (KKw KRange) = false ->
  expression_list A G D C E OPS self s2 = Ok r s3 ->
  l = l1 ++ e0 :: l2 ->
  forallb (is_tag GIdent) l1 = true ->
  is_tag GIdent e0 = false ->
  parse_simple_stmt A G D C E OPS self s =
  match expr_pos A C e0 with
  | Some p => Err (else_error_at A E p 75) s3
  | None => Panic 642
  end.
Check C03_ss_range :
  forall (A G D C E : Type) (OPS : ops A G D C) (self : parsers A G D C E)
    (s s1 : pstate A G D E) (l : list (node A C)),
  expression_list A G D C E OPS self s = Ok l s1 ->
  forall (pos : A) (op : operator) (s2 : pstate A G D E) (pr : A) 
    (s2' : pstate A G D E) (x : node A C) (s3 : pstate A G D E),
  s_cur A G D E s1 = Some (pos, TOperator op) ->
  op = OAssign \/ op = ODefine ->
  next A G D C E OPS s1 = Ok tt s2 ->
  cur_is A G D E s2 (KKw KRange) = true ->
  expect A G D C E OPS (KKw KRange) 73 s2 = Ok pr s2' ->
  k_expr A G D C E self s2' = Ok x s3 ->
  (op = ODefine -> forallb (is_tag GIdent) l = true) ->
  parse_simple_stmt A G D C E OPS self s =
  Ok (mk A C GAssign [pos] [AOp op] [nlist l; nlist [mk A C GRange [pr] [] [x]]]) s3.
Check C03_ss_label :
  forall (A G D C E : Type) (OPS : ops A G D C) (self : parsers A G D C E)
    (s s1 : pstate A G D E) (l : list (node A C)),
  expression_list A G D C E OPS self s = Ok l s1 ->
  forall (pos : A) (e : node A C) (s2 : pstate A G D E) (st : node A C) (s3 : pstate A G D E),
  s_cur A G D E s1 = Some (pos, TOperator OColon) ->
  l = [e] ->
  is_tag GIdent e = true ->
  next A G D C E OPS s1 = Ok tt s2 ->
  k_stmt A G D C E self s2 = Ok st s3 ->
  parse_simple_stmt A G D C E OPS self s = Ok (mk A C GLabel [pos] [] [e; st]) s3.
Check C03_ss_label_err :
  forall (A G D C E : Type) (OPS : ops A G D C) (self : parsers A G D C E)
    (s s1 : pstate A G D E) (l : list (node A C)),
  expression_list A G D C E OPS self s = Ok l s1 ->
  forall (pos : A) (e : node A C),
  s_cur A G D E s1 = Some (pos, TOperator OColon) ->
  l = [e] ->
  is_tag GIdent e = false ->
  parse_simple_stmt A G D C E OPS self s = Err (else_error_at A E pos 78) s1.
Check C03_ss_send :
  forall (A G D C E : Type) (OPS : ops A G D C) (self : parsers A G D C E)
    (s s1 : pstate A G D E) (l : list (node A C)),
  expression_list A G D C E OPS self s = Ok l s1 ->
  forall (pos : A) (e : node A C) (s2 : pstate A G D E) (v : node A C) (s3 : pstate A G D E),
  s_cur A G D E s1 = Some (pos, TOperator OArrow) ->
  l = [e] ->
  next A G D C E OPS s1 = Ok tt s2 ->
  k_expr A G D C E self s2 = Ok v s3 ->
  parse_simple_stmt A G D C E OPS self s = Ok (mk A C GSend [pos] [] [e; v]) s3.
Check C03_ss_incdec :
  forall (A G D C E : Type) (OPS : ops A G D C) (self : parsers A G D C E)
    (s s1 : pstate A G D E) (l : list (node A C)),
  expression_list A G D C E OPS self s = Ok l s1 ->
  forall (pos : A) (op : operator) (e : node A C) (s2 : pstate A G D E),
  s_cur A G D E s1 = Some (pos, TOperator op) ->
  op = OInc \/ op = ODec ->
  l = [e] ->
  next A G D C E OPS s1 = Ok tt s2 ->
  parse_simple_stmt A G D C E OPS self s = Ok (mk A C GIncDec [pos] [AOp op] [e]) s2.
Check C03_ss_expr :
  forall (A G D C E : Type) (OPS : ops A G D C) (self : parsers A G D C E)
    (s s1 : pstate A G D E) (l : list (node A C)),
  expression_list A G D C E OPS self s = Ok l s1 ->
  forall (pos : A) (tok : token) (e : node A C),
  s_cur A G D E s1 = Some (pos, tok) ->
  classify_simple tok = CExpr ->
  l = [e] -> parse_simple_stmt A G D C E OPS self s = Ok (mk A C GExprStmt [] [] [e]) s1.
Check C03_ss_many_err :
  forall (A G D C E : Type) (OPS : ops A G D C) (self : parsers A G D C E)
    (s s1 : pstate A G D E) (l : list (node A C)),
  expression_list A G D C E OPS self s = Ok l s1 ->
  forall (pos : A) (tok : token) (e1 e2 : node A C) (r : list (node A C)),
  s_cur A G D E s1 = Some (pos, tok) ->
  (forall op : operator, classify_simple tok <> CAssign op) ->
  l = e1 :: e2 :: r ->
  parse_simple_stmt A G D C E OPS self s =
  match expr_pos A C e1 with
  | Some p => Err (else_error_at A E p 74) s1
  | None => Panic 642
  end.
Check C03_param_name_type :
  forall (A G D C E : Type) (OPS : ops A G D C) (self : parsers A G D C E)
    (s s1 s2 : pstate A G D E) (pa : A) (a : str) (p1 : A) (t1 : token) 
    (T : node A C),
  s_cur A G D E s = Some (pa, TLiteral LIdent a) ->
  next A G D C E OPS s = Ok tt s1 ->
  s_cur A G D E s1 = Some (p1, t1) ->
  param_type_start t1 = true ->
  k_type A G D C E self s1 = Ok T s2 ->
  cur_is A G D E s2 (KOp OOr) = false ->
  parse_parameter_decl A G D C E OPS self s =
  Ok [n_field A C [n_ident A C pa a] T None (c_empty A G D C OPS)] s2.
Check C03_param_names_type :
  forall (A G D C E : Type) (OPS : ops A G D C) (self : parsers A G D C E)
    (s s1 s2 s3 s4 : pstate A G D E) (pa : A) (a : str) (pc pb : A) 
    (b : str) (p3 : A) (t3 : token) (T : node A C),
  s_cur A G D E s = Some (pa, TLiteral LIdent a) ->
  next A G D C E OPS s = Ok tt s1 ->
  s_cur A G D E s1 = Some (pc, TOperator OComma) ->
  next A G D C E OPS s1 = Ok tt s2 ->
  s_cur A G D E s2 = Some (pb, TLiteral LIdent b) ->
  next A G D C E OPS s2 = Ok tt s3 ->
  s_cur A G D E s3 = Some (p3, t3) ->
  param_type_start t3 = true ->
  k_type A G D C E self s3 = Ok T s4 ->
  cur_is A G D E s4 (KOp OOr) = false ->
  parse_parameter_decl A G D C E OPS self s =
  Ok [n_field A C [n_ident A C pa a; n_ident A C pb b] T None (c_empty A G D C OPS)] s4.
Check C03_param_group_named :
  forall (A G D C E : Type) (OPS : ops A G D C) (self : parsers A G D C E)
    (s s1 s' s'' : pstate A G D E) (pa : A) (a : str) (more : list (node A C)) 
    (p : A) (t : token) (T : node A C),
  s_cur A G D E s = Some (pa, TLiteral LIdent a) ->
  next A G D C E OPS s = Ok tt s1 ->
  more_names A G D C E OPS s1 more s' ->
  s_cur A G D E s' = Some (p, t) ->
  param_type_start t = true ->
  k_type A G D C E self s' = Ok T s'' ->
  cur_is A G D E s'' (KOp OOr) = false ->
  parse_parameter_decl A G D C E OPS self s =
  Ok [n_field A C (n_ident A C pa a :: more) T None (c_empty A G D C OPS)] s''.
Check C03_param_type_only :
  forall (A G D C E : Type) (OPS : ops A G D C) (self : parsers A G D C E)
    (s s1 : pstate A G D E) (pa : A) (a : str) (p1 : A),
  s_cur A G D E s = Some (pa, TLiteral LIdent a) ->
  next A G D C E OPS s = Ok tt s1 ->
  s_cur A G D E s1 = Some (p1, TOperator OParenRight) ->
  parse_parameter_decl A G D C E OPS self s = Ok [field_of A G D C OPS (n_ident A C pa a)] s1.
Check C03_param_type_comma :
  forall (A G D C E : Type) (OPS : ops A G D C) (self : parsers A G D C E)
    (s s1 s2 : pstate A G D E) (pa : A) (a : str) (pc p2 : A) (t2 : token),
  s_cur A G D E s = Some (pa, TLiteral LIdent a) ->
  next A G D C E OPS s = Ok tt s1 ->
  s_cur A G D E s1 = Some (pc, TOperator OComma) ->
  next A G D C E OPS s1 = Ok tt s2 ->
  s_cur A G D E s2 = Some (p2, t2) ->
  tok_is t2 (KLit LIdent) = false ->
  param_type_start t2 = true \/ t2 = TOperator OParenRight ->
  parse_parameter_decl A G D C E OPS self s = Ok [field_of A G D C OPS (n_ident A C pa a)] s2.
Check C03_param_two_types :
  forall (A G D C E : Type) (OPS : ops A G D C) (self : parsers A G D C E)
    (s s1 s2 s3 : pstate A G D E) (pa : A) (a : str) (pc pb : A) (b : str) 
    (p3 : A),
  s_cur A G D E s = Some (pa, TLiteral LIdent a) ->
  next A G D C E OPS s = Ok tt s1 ->
  s_cur A G D E s1 = Some (pc, TOperator OComma) ->
  next A G D C E OPS s1 = Ok tt s2 ->
  s_cur A G D E s2 = Some (pb, TLiteral LIdent b) ->
  next A G D C E OPS s2 = Ok tt s3 ->
  s_cur A G D E s3 = Some (p3, TOperator OParenRight) ->
  parse_parameter_decl A G D C E OPS self s =
  Ok [field_of A G D C OPS (n_ident A C pa a); field_of A G D C OPS (n_ident A C pb b)] s3.
Check C03_param_group_types :
  forall (A G D C E : Type) (OPS : ops A G D C) (self : parsers A G D C E)
    (s s1 s' : pstate A G D E) (pa : A) (a : str) (more : list (node A C)) 
    (p : A),
  s_cur A G D E s = Some (pa, TLiteral LIdent a) ->
  next A G D C E OPS s = Ok tt s1 ->
  more_names A G D C E OPS s1 more s' ->
  s_cur A G D E s' = Some (p, TOperator OParenRight) ->
  parse_parameter_decl A G D C E OPS self s =
  Ok (map (fun id : node A C => field_of A G D C OPS id) (n_ident A C pa a :: more)) s'.
Check C03_param_name_ellipsis :
  forall (A G D C E : Type) (OPS : ops A G D C) (self : parsers A G D C E)
    (s s1 s2 s3 : pstate A G D E) (pa : A) (a : str) (pe : A) (T : node A C),
  s_cur A G D E s = Some (pa, TLiteral LIdent a) ->
  next A G D C E OPS s = Ok tt s1 ->
  s_cur A G D E s1 = Some (pe, TOperator ODotDotDot) ->
  next A G D C E OPS s1 = Ok tt s2 ->
  k_type A G D C E self s2 = Ok T s3 ->
  parse_parameter_decl A G D C E OPS self s =
  Ok
    [n_field A C [n_ident A C pa a] (mk A C GEllipsis [pe] [] [T]) None (c_empty A G D C OPS)]
    s3.
Check C03_param_names_ellipsis_err :
  forall (A G D C E : Type) (OPS : ops A G D C) (self : parsers A G D C E)
    (s s1 s2 s3 s4 s5 : pstate A G D E) (pa : A) (a : str) (pc pb : A) 
    (b : str) (pe : A) (T : node A C),
  s_cur A G D E s = Some (pa, TLiteral LIdent a) ->
  next A G D C E OPS s = Ok tt s1 ->
  s_cur A G D E s1 = Some (pc, TOperator OComma) ->
  next A G D C E OPS s1 = Ok tt s2 ->
  s_cur A G D E s2 = Some (pb, TLiteral LIdent b) ->
  next A G D C E OPS s2 = Ok tt s3 ->
  s_cur A G D E s3 = Some (pe, TOperator ODotDotDot) ->
  next A G D C E OPS s3 = Ok tt s4 ->
  k_type A G D C E self s4 = Ok T s5 ->
  parse_parameter_decl A G D C E OPS self s = Err (else_error A G D E s3 24) s3.
Check C03_param_qualified :
  forall (A G D C E : Type) (OPS : ops A G D C) (self : parsers A G D C E)
    (s s1 s2 s3 : pstate A G D E) (pp : A) (pkg : str) (pd pt : A) 
    (t : str),
  s_cur A G D E s = Some (pp, TLiteral LIdent pkg) ->
  next A G D C E OPS s = Ok tt s1 ->
  s_cur A G D E s1 = Some (pd, TOperator ODot) ->
  next A G D C E OPS s1 = Ok tt s2 ->
  s_cur A G D E s2 = Some (pt, TLiteral LIdent t) ->
  next A G D C E OPS s2 = Ok tt s3 ->
  cur_is A G D E s3 (KOp OBarackLeft) = false ->
  parse_parameter_decl A G D C E OPS self s =
  Ok [field_of A G D C OPS (mk A C GSelector [pd] [] [n_ident A C pp pkg; n_ident A C pt t])]
    s3.
Check C03_param_type_qualified :
  forall (A G D C E : Type) (OPS : ops A G D C) (self : parsers A G D C E)
    (s s1 s2 s3 s4 s5 : pstate A G D E) (pa : A) (a : str) (pc pp : A) 
    (pkg : str) (pd pt : A) (t : str),
  s_cur A G D E s = Some (pa, TLiteral LIdent a) ->
  next A G D C E OPS s = Ok tt s1 ->
  s_cur A G D E s1 = Some (pc, TOperator OComma) ->
  next A G D C E OPS s1 = Ok tt s2 ->
  s_cur A G D E s2 = Some (pp, TLiteral LIdent pkg) ->
  next A G D C E OPS s2 = Ok tt s3 ->
  s_cur A G D E s3 = Some (pd, TOperator ODot) ->
  next A G D C E OPS s3 = Ok tt s4 ->
  s_cur A G D E s4 = Some (pt, TLiteral LIdent t) ->
  next A G D C E OPS s4 = Ok tt s5 ->
  cur_is A G D E s5 (KOp OBarackLeft) = false ->
  parse_parameter_decl A G D C E OPS self s =
  Ok
    [field_of A G D C OPS (n_ident A C pa a);
     field_of A G D C OPS (mk A C GSelector [pd] [] [n_ident A C pp pkg; n_ident A C pt t])]
    s5.
Check C03_param_ellipsis_only :
  forall (A G D C E : Type) (OPS : ops A G D C) (self : parsers A G D C E)
    (s s1 s2 : pstate A G D E) (pe : A) (T : node A C),
  s_cur A G D E s = Some (pe, TOperator ODotDotDot) ->
  next A G D C E OPS s = Ok tt s1 ->
  k_type A G D C E self s1 = Ok T s2 ->
  parse_parameter_decl A G D C E OPS self s =
  Ok [field_of A G D C OPS (mk A C GEllipsis [pe] [] [T])] s2.
Check C03_param_nonident_type :
  forall (A G D C E : Type) (OPS : ops A G D C) (self : parsers A G D C E)
    (s s1 : pstate A G D E) (T : node A C),
  cur_is A G D E s (KOp ODotDotDot) = false ->
  cur_is A G D E s (KLit LIdent) = false ->
  k_type A G D C E self s = Ok T s1 ->
  parse_parameter_decl A G D C E OPS self s = Ok [field_of A G D C OPS T] s1.
Check C03_ifh_brace :
  forall (A G D C E : Type) (OPS : ops A G D C) (self : parsers A G D C E)
    (s : pstate A G D E),
  cur_is A G D E s (KOp OBraceLeft) = true ->
  parse_if_header A G D C E OPS self s = Err (else_error A G D E s 88) s.
Check C03_ifh_var :
  forall (A G D C E : Type) (OPS : ops A G D C) (self : parsers A G D C E)
    (s : pstate A G D E),
  cur_is A G D E s (KOp OBraceLeft) = false ->
  cur_is A G D E s (KOp OSemiColon) = false ->
  cur_is A G D E s (KKw KVar) = true ->
  parse_if_header A G D C E OPS self s =
  Err (else_error A G D E (reset_level A G D E s) 89) (reset_level A G D E s).
Check C03_ifh_cond :
  forall (A G D C E : Type) (OPS : ops A G D C) (self : parsers A G D C E)
    (s : pstate A G D E) (c : node A C) (s1 : pstate A G D E),
  cur_is A G D E s (KOp OBraceLeft) = false ->
  cur_is A G D E s (KOp OSemiColon) = false ->
  cur_is A G D E s (KKw KVar) = false ->
  parse_simple_stmt A G D C E OPS self (reset_level A G D E s) = Ok c s1 ->
  cur_is A G D E s1 (KOp OBraceLeft) = true ->
  parse_if_header A G D C E OPS self s =
  (if is_tag GExprStmt c
   then Ok (None, kid c 0) (upd_level A G D E s1 (s_lp A G D E s) (s_ln A G D E s))
   else Err (else_error A G D E s1 92) s1).
Check C03_ifh_init_cond :
  forall (A G D C E : Type) (OPS : ops A G D C) (self : parsers A G D C E)
    (s : pstate A G D E) (i : node A C) (s1 : pstate A G D E) (p : A) 
    (s2 : pstate A G D E) (c : node A C) (s3 : pstate A G D E),
  cur_is A G D E s (KOp OBraceLeft) = false ->
  cur_is A G D E s (KOp OSemiColon) = false ->
  cur_is A G D E s (KKw KVar) = false ->
  parse_simple_stmt A G D C E OPS self (reset_level A G D E s) = Ok i s1 ->
  cur_is A G D E s1 (KOp OBraceLeft) = false ->
  expect A G D C E OPS (KOp OSemiColon) 90 s1 = Ok p s2 ->
  parse_simple_stmt A G D C E OPS self s2 = Ok c s3 ->
  parse_if_header A G D C E OPS self s =
  (if is_tag GExprStmt c
   then Ok (Some i, kid c 0) (upd_level A G D E s3 (s_lp A G D E s) (s_ln A G D E s))
   else Err (else_error A G D E s3 92) s3).
Check C03_ifh_semi_cond :
  forall (A G D C E : Type) (OPS : ops A G D C) (self : parsers A G D C E)
    (s : pstate A G D E) (p : A) (s2 : pstate A G D E) (c : node A C) 
    (s3 : pstate A G D E),
  cur_is A G D E s (KOp OBraceLeft) = false ->
  cur_is A G D E s (KOp OSemiColon) = true ->
  expect A G D C E OPS (KOp OSemiColon) 90 (reset_level A G D E s) = Ok p s2 ->
  parse_simple_stmt A G D C E OPS self s2 = Ok c s3 ->
  parse_if_header A G D C E OPS self s =
  (if is_tag GExprStmt c
   then Ok (None, kid c 0) (upd_level A G D E s3 (s_lp A G D E s) (s_ln A G D E s))
   else Err (else_error A G D E s3 92) s3).
Check C03_if_header_inv :
  forall (A G D C E : Type) (OPS : ops A G D C) (self : parsers A G D C E)
    (s : pstate A G D E) (init : option (node A C)) (cond : node A C) 
    (s' : pstate A G D E),
  parse_if_header A G D C E OPS self s = Ok (init, cond) s' ->
  cur_is A G D E s (KOp OBraceLeft) = false /\
  (exists (c : node A C) (s3 : pstate A G D E),
     is_tag GExprStmt c = true /\
     cond = kid c 0 /\
     s' = upd_level A G D E s3 (s_lp A G D E s) (s_ln A G D E s) /\
     (init = None /\
      cur_is A G D E s (KOp OSemiColon) = false /\
      parse_simple_stmt A G D C E OPS self (reset_level A G D E s) = Ok c s3 /\
      cur_is A G D E s3 (KOp OBraceLeft) = true \/
      (exists (i : node A C) (s1 : pstate A G D E) (p : A) (s2 : pstate A G D E),
         init = Some i /\
         cur_is A G D E s (KOp OSemiColon) = false /\
         parse_simple_stmt A G D C E OPS self (reset_level A G D E s) = Ok i s1 /\
         cur_is A G D E s1 (KOp OBraceLeft) = false /\
         expect A G D C E OPS (KOp OSemiColon) 90 s1 = Ok p s2 /\
         parse_simple_stmt A G D C E OPS self s2 = Ok c s3) \/
      init = None /\
      cur_is A G D E s (KOp OSemiColon) = true /\
      (exists (p : A) (s2 : pstate A G D E),
         expect A G D C E OPS (KOp OSemiColon) 90 (reset_level A G D E s) = Ok p s2 /\
         parse_simple_stmt A G D C E OPS self s2 = Ok c s3))).
Check C03_if_body_inv :
  forall (A G D C E : Type) (OPS : ops A G D C) (self : parsers A G D C E)
    (s : pstate A G D E) (n : node A C) (s' : pstate A G D E),
  if_body A G D C E OPS self s = Ok n s' ->
  exists
    (pos : A) (s1 : pstate A G D E) (init : option (node A C)) (cond : node A C) 
  (s2 : pstate A G D E) (body : node A C) (s3 : pstate A G D E) (els : node A C),
    expect A G D C E OPS (KKw KIf) 93 s = Ok pos s1 /\
    parse_if_header A G D C E OPS self s1 = Ok (init, cond) s2 /\
    k_block A G D C E self s2 = Ok body s3 /\
    n = mk A C GIf [pos] [] [nopt init; cond; body; els] /\
    (cur_is A G D E s3 (KKw KElse) = false /\
     els = nnone /\ (exists b : bool, skipped A G D C E OPS (KOp OSemiColon) s3 = Ok b s') \/
     cur_is A G D E s3 (KKw KElse) = true /\
     (exists s4 : pstate A G D E,
        next A G D C E OPS s3 = Ok tt s4 /\
        ((exists p : A,
            s_cur A G D E s4 = Some (p, TKeyword KIf) /\ k_if A G D C E self s4 = Ok els s') \/
         (exists (p : A) (s5 : pstate A G D E) (b : bool),
            s_cur A G D E s4 = Some (p, TOperator OBraceLeft) /\
            k_block A G D C E self s4 = Ok els s5 /\
            skipped A G D C E OPS (KOp OSemiColon) s5 = Ok b s')))).
Check C03_if_no_else :
  forall (A G D C E : Type) (OPS : ops A G D C) (self : parsers A G D C E)
    (s s1 s2 s3 : pstate A G D E) (pos : A) (init : option (node A C)) 
    (cond body : node A C),
  expect A G D C E OPS (KKw KIf) 93 s = Ok pos s1 ->
  parse_if_header A G D C E OPS self s1 = Ok (init, cond) s2 ->
  k_block A G D C E self s2 = Ok body s3 ->
  forall (b : bool) (s5 : pstate A G D E),
  cur_is A G D E s3 (KKw KElse) = false ->
  skipped A G D C E OPS (KOp OSemiColon) s3 = Ok b s5 ->
  if_body A G D C E OPS self s = Ok (mk A C GIf [pos] [] [nopt init; cond; body; nnone]) s5.
Check C03_if_else_if :
  forall (A G D C E : Type) (OPS : ops A G D C) (self : parsers A G D C E)
    (s s1 s2 s3 : pstate A G D E) (pos : A) (init : option (node A C)) 
    (cond body : node A C),
  expect A G D C E OPS (KKw KIf) 93 s = Ok pos s1 ->
  parse_if_header A G D C E OPS self s1 = Ok (init, cond) s2 ->
  k_block A G D C E self s2 = Ok body s3 ->
  forall (s4 : pstate A G D E) (p : A) (st : node A C) (s5 : pstate A G D E),
  cur_is A G D E s3 (KKw KElse) = true ->
  next A G D C E OPS s3 = Ok tt s4 ->
  s_cur A G D E s4 = Some (p, TKeyword KIf) ->
  k_if A G D C E self s4 = Ok st s5 ->
  if_body A G D C E OPS self s = Ok (mk A C GIf [pos] [] [nopt init; cond; body; st]) s5.
Check C03_if_else_block :
  forall (A G D C E : Type) (OPS : ops A G D C) (self : parsers A G D C E)
    (s s1 s2 s3 : pstate A G D E) (pos : A) (init : option (node A C)) 
    (cond body : node A C),
  expect A G D C E OPS (KKw KIf) 93 s = Ok pos s1 ->
  parse_if_header A G D C E OPS self s1 = Ok (init, cond) s2 ->
  k_block A G D C E self s2 = Ok body s3 ->
  forall (s4 : pstate A G D E) (p : A) (blk : node A C) (s5 : pstate A G D E) 
    (b : bool) (s6 : pstate A G D E),
  cur_is A G D E s3 (KKw KElse) = true ->
  next A G D C E OPS s3 = Ok tt s4 ->
  s_cur A G D E s4 = Some (p, TOperator OBraceLeft) ->
  k_block A G D C E self s4 = Ok blk s5 ->
  skipped A G D C E OPS (KOp OSemiColon) s5 = Ok b s6 ->
  if_body A G D C E OPS self s = Ok (mk A C GIf [pos] [] [nopt init; cond; body; blk]) s6.
Check C03_if_else_err :
  forall (A G D C E : Type) (OPS : ops A G D C) (self : parsers A G D C E)
    (s s1 s2 s3 : pstate A G D E) (pos : A) (init : option (node A C)) 
    (cond body : node A C),
  expect A G D C E OPS (KKw KIf) 93 s = Ok pos s1 ->
  parse_if_header A G D C E OPS self s1 = Ok (init, cond) s2 ->
  k_block A G D C E self s2 = Ok body s3 ->
  forall s4 : pstate A G D E,
  cur_is A G D E s3 (KKw KElse) = true ->
  next A G D C E OPS s3 = Ok tt s4 ->
  cur_is A G D E s4 (KKw KIf) = false ->
  cur_is A G D E s4 (KOp OBraceLeft) = false ->
  if_body A G D C E OPS self s = Err (else_error A G D E s4 95) s4.
Check C03_for_range_bare :
  forall (A G D C E : Type) (OPS : ops A G D C) (self : parsers A G D C E)
    (s s1 : pstate A G D E) (pos : A),
  expect A G D C E OPS (KKw KFor) 111 s = Ok pos s1 ->
  forall (pr : A) (s3 : pstate A G D E) (x : node A C) (s4 : pstate A G D E) 
    (body : node A C) (s5 : pstate A G D E),
  cur_is A G D E s1 (KKw KRange) = true ->
  expect A G D C E OPS (KKw KRange) 112 (reset_level A G D E s1) = Ok pr s3 ->
  k_expr A G D C E self s3 = Ok x s4 ->
  k_block A G D C E self (upd_level A G D E s4 (s_lp A G D E s1) (s_ln A G D E s1)) =
  Ok body s5 ->
  parse_for_stmt A G D C E OPS self s =
  Ok (mk A C GRangeStmt [pos; pr] [] [nnone; nnone; nnone; x; body]) s5.
Check C03_for_bare :
  forall (A G D C E : Type) (OPS : ops A G D C) (self : parsers A G D C E)
    (s s1 : pstate A G D E) (pos : A),
  expect A G D C E OPS (KKw KFor) 111 s = Ok pos s1 ->
  forall (body : node A C) (s3 : pstate A G D E),
  cur_is A G D E s1 (KKw KRange) = false ->
  cur_is A G D E s1 (KOp OBraceLeft) = true ->
  k_block A G D C E self
    (upd_level A G D E (reset_level A G D E s1) (s_lp A G D E s1) (s_ln A G D E s1)) =
  Ok body s3 ->
  parse_for_stmt A G D C E OPS self s =
  Ok (mk A C GFor [pos] [] [nnone; nnone; nnone; body]) s3.
Check C03_for_cond :
  forall (A G D C E : Type) (OPS : ops A G D C) (self : parsers A G D C E)
    (s s1 : pstate A G D E) (pos : A),
  expect A G D C E OPS (KKw KFor) 111 s = Ok pos s1 ->
  forall (st : node A C) (s3 : pstate A G D E) (body : node A C) (s5 : pstate A G D E),
  cur_is A G D E s1 (KKw KRange) = false ->
  cur_is A G D E s1 (KOp OBraceLeft) = false ->
  cur_is A G D E s1 (KOp OSemiColon) = false ->
  parse_simple_stmt A G D C E OPS self (reset_level A G D E s1) = Ok st s3 ->
  assign_is_range A C st = false ->
  cur_is A G D E s3 (KOp OSemiColon) = false ->
  k_block A G D C E self (upd_level A G D E s3 (s_lp A G D E s1) (s_ln A G D E s1)) =
  Ok body s5 ->
  parse_for_stmt A G D C E OPS self s = Ok (mk A C GFor [pos] [] [nnone; st; nnone; body]) s5.
Check C03_for_clauses :
  forall (A G D C E : Type) (OPS : ops A G D C) (self : parsers A G D C E)
    (s s1 : pstate A G D E) (pos : A),
  expect A G D C E OPS (KKw KFor) 111 s = Ok pos s1 ->
  forall (init : option (node A C)) (s3 s4 : pstate A G D E) (cond : option (node A C))
    (s5 : pstate A G D E) (p : A) (s6 : pstate A G D E) (post : option (node A C))
    (s7 : pstate A G D E) (body : node A C) (s8 : pstate A G D E),
  cur_is A G D E s1 (KKw KRange) = false ->
  cur_is A G D E s1 (KOp OBraceLeft) = false ->
  for_init A G D C E OPS self s1 init s3 ->
  cur_is A G D E s3 (KOp OSemiColon) = true ->
  next A G D C E OPS s3 = Ok tt s4 ->
  opt_clause A G D C E OPS self (KOp OSemiColon) s4 cond s5 ->
  expect A G D C E OPS (KOp OSemiColon) 113 s5 = Ok p s6 ->
  opt_clause A G D C E OPS self (KOp OBraceLeft) s6 post s7 ->
  k_block A G D C E self (upd_level A G D E s7 (s_lp A G D E s1) (s_ln A G D E s1)) =
  Ok body s8 ->
  parse_for_stmt A G D C E OPS self s =
  Ok (mk A C GFor [pos] [] [nopt init; nopt cond; nopt post; body]) s8.
Check C03_for_range_assign :
  forall (A G D C E : Type) (OPS : ops A G D C) (self : parsers A G D C E)
    (s s1 : pstate A G D E) (pos : A),
  expect A G D C E OPS (KKw KFor) 111 s = Ok pos s1 ->
  forall (apos : A) (op : operator) (left : list (node A C)) (pr : A) 
    (x : node A C) (s3 : pstate A G D E) (body : node A C) (s4 : pstate A G D E),
  cur_is A G D E s1 (KKw KRange) = false ->
  cur_is A G D E s1 (KOp OBraceLeft) = false ->
  cur_is A G D E s1 (KOp OSemiColon) = false ->
  parse_simple_stmt A G D C E OPS self (reset_level A G D E s1) =
  Ok (mk A C GAssign [apos] [AOp op] [nlist left; nlist [mk A C GRange [pr] [] [x]]]) s3 ->
  k_block A G D C E self (upd_level A G D E s3 (s_lp A G D E s1) (s_ln A G D E s1)) =
  Ok body s4 ->
  parse_for_stmt A G D C E OPS self s =
  (if 3 <=? length left
   then Err (else_error_at A E apos 114) s3
   else
    Ok
      (mk A C GRangeStmt [pos; pr] []
         [nopt (nth_error left 0); nopt (nth_error left 1); Nd GPos [apos] [AOp op] [] []; x;
          body]) s4).
