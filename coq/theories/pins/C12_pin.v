From Coq Require Import List NArith Bool.
From GoSyn.spec Require Import LineCol Docs.
From GoSyn Require Import Token Tok Scanner Ast Core Policy Entry.
From GoSyn.proofs Require Import Lift StreamProofs LevelProofs DocProofs.
From GoSyn.props Require Import C12.
Import ListNotations.
Open Scope N_scope.

Check C12_last_group : forall L g, is_last_group L g (last_group L g).
Check C12_last_group_unique : forall L g r, is_last_group L g r -> r = last_group L g.
Check C12_last_group_longest : forall L g pre r,
  g = pre ++ r -> is_run L r -> (length r <= length (last_group L g))%nat.

Check C12_loop_is_spec : forall L LS prev g tokpos,
  nextA L LS prev g tokpos = rev (lead_spec L LS prev g tokpos).
Check C12_instantiation : forall lines d prev g tokpos,
  c_lead (p_next lines d prev g tokpos)
  = nextA (line_c lines) (line_start_c lines) (eff_prev d prev) g tokpos.
Check C12_lead : forall lines d prev g tokpos,
  c_lead (p_next lines d prev g tokpos)
  = rev (lead_spec (line_c lines) (line_start_c lines) (eff_prev d prev) g tokpos).
Check C12_all_unchanged_by_lead : forall lines d prev g tokpos,
  c_all (p_next lines d prev g tokpos)
  = fold_left (fun all c => record_comment c all) g (c_all d).

Check C12_blank_line : forall lines d prev g p c,
  last_opt g = Some c -> ~ trailing (line_start_c lines) (eff_prev d prev) c ->
  line_c lines (cend c) + 1 < line_c lines p ->
  c_lead (p_next lines d prev g (Some p)) = [].
Check C12_detached : forall lines d prev g1 c1 c2 g2 tokpos,
  line_c lines (cend c1) + 1 < line_c lines (fst c2) ->
  c_lead (p_next lines d prev (g1 ++ c1 :: c2 :: g2) tokpos)
  = c_lead (p_next lines d prev (c2 :: g2) tokpos).
Check C12_trailing : forall lines d prev g tokpos c,
  In c (c_lead (p_next lines d prev g tokpos)) ->
  ~ trailing (line_start_c lines) (eff_prev d prev) c.
Check C12_fresh : forall lines d prev g tokpos c,
  In c (c_lead (p_next lines d prev g tokpos)) -> In c g.
Check C12_fresh_state : forall lines d prev g tokpos,
  p_next lines d prev g tokpos
  = p_next lines {| c_all := c_all d; c_lead := []; c_prev := c_prev d |} prev g tokpos.
Check C12_whole_run : forall lines d prev g p,
  is_run (line_c lines) g ->
  (forall c, In c g -> ~ trailing (line_start_c lines) (eff_prev d prev) c) ->
  (forall c, last_opt g = Some c -> line_c lines p <= line_c lines (cend c) + 1) ->
  c_lead (p_next lines d prev g (Some p)) = rev g.

Check C12_corner_trailing_then_docs : forall L LS prev t c p,
  trailing LS prev t -> ~ trailing LS prev c -> adjacent L t c -> attached L p c ->
  lead_spec L LS prev [t; c] (Some p) = [c].
Check C12_corner_trailing_in_the_middle : forall L LS prev c1 t c3 p,
  ~ trailing LS prev c1 -> trailing LS prev t -> ~ trailing LS prev c3 ->
  adjacent L c1 t -> adjacent L t c3 -> attached L p c3 ->
  lead_spec L LS prev [c1; t; c3] (Some p) = [c1; c3].
Check C12_corner_final_test : forall L LS prev c t p,
  ~ trailing LS prev c -> trailing LS prev t -> adjacent L c t -> attached L p c ->
  lead_spec L LS prev [c; t] (Some p) = [c].
Check C12_docs_are_a_suffix : forall L LS prev g,
  ls_sorted LS g -> exists pre, g = pre ++ doc_candidates L LS prev g.
Check C12_docs_contiguous : forall lines prev g,
  sorted_strict lines -> pos_sorted g ->
  exists pre, g = pre ++ doc_candidates (line_c lines) (line_start_c lines) prev g.
Check C12_all_or_nothing : forall L LS prev g tokpos,
  lead_spec L LS prev g tokpos = [] \/
  lead_spec L LS prev g tokpos = doc_candidates L LS prev g.

Check C12_invariant : forall lines E whole term,
  prim_closed (policy_ops lines) (doc_inv lines E whole term).
Check C12_invariant_init : forall lines E a0 d0 elems term,
  c_lead d0 = [] -> doc_inv lines E elems term (init_state a0 d0 elems term).
Check C12_invariant_parse_file : forall lines E whole term depth s,
  doc_inv lines E whole term s ->
  post (doc_inv lines E whole term) (doc_inv lines E whole term)
       (parse_file (policy_ops lines) (parsers_at (policy_ops lines) depth) s).
Check C12_invariant_all_productions : forall lines E whole term depth,
  Good (fun _ : unit => doc_inv lines E whole term) (fun _ => doc_inv lines E whole term)
       (parsers_at (policy_ops lines) depth).
Check C12_drain : forall lines E whole term s,
  doc_inv lines E whole term s ->
  docs_of lines E whole term (rev (fst (drain (policy_ops lines) s))).
Check C12_synced_after_next : forall lines E (s s' : pstate N (list comment) cstate E),
  next (policy_ops lines) s = Ok tt s' ->
  cur_mark s' /\
  match s_mark s' with
  | SE pos a1 t g :: _ =>
      c_lead (s_d s')
      = rev (lead_spec (line_c lines) (line_start_c lines)
                       (eff_prev (s_d s) (prev_end s)) g (Some pos))
  | [] => True
  end.
Check C12_docs_after_next : forall lines E (s s1 : pstate N (list comment) cstate E)
    (n : node N (list comment)),
  next (policy_ops lines) s = Ok tt s1 -> n_docs n = [fst (drain (policy_ops lines) s1)] ->
  match s_mark s1 with
  | SE pos a1 t g :: _ =>
      n_docs n = [lead_spec (line_c lines) (line_start_c lines)
                            (eff_prev (s_d s) (prev_end s)) g (Some pos)]
  | [] => True
  end.
Check C12_drain_synced : forall lines E (s : pstate N (list comment) cstate E) pos t,
  sync_inv lines E s -> s_cur s = Some (pos, t) ->
  fst (drain (policy_ops lines) s) = [] \/
  exists a1 g prev g',
    s_mark s = SE pos a1 t g :: s_rest s /\ tail_of g' g /\
    fst (drain (policy_ops lines) s)
    = lead_spec (line_c lines) (line_start_c lines) prev g' (Some pos).

Check C12_drain_sites : forall A G D C E (OPS : ops A G D C) (self : parsers A G D C E),
  (forall s n s', parse_func_decl OPS self s = Ok n s' ->
     n_tag n = GFuncDecl /\ n_docs n = [fst (drain OPS s)]) /\
  (forall k index s n s', parse_spec OPS self k index s = Ok n s' ->
     n_tag n = spec_tag k /\ n_docs n = [fst (drain OPS s)]) /\
  (forall s n s', field_decl OPS self s = Ok n s' ->
     n_tag n = GField /\ n_docs n = [fst (drain OPS s)]) /\
  (forall k s n s', parse_decl OPS self k s = Ok n s' ->
     n_tag n = decl_tag k /\
     ((n_docs n = [fst (drain OPS s)] /\
       Forall (fun sp => n_tag sp = spec_tag k /\
                         exists si : pstate A G D E, n_docs sp = [fst (drain OPS si)])
              (n_kids n)) \/
      (n_docs n = [c_empty OPS] /\
       exists sp, n_kids n = [sp] /\ n_tag sp = spec_tag k /\
                  n_docs sp = [fst (drain OPS s)]))) /\
  (forall s n s', parse_file OPS self s = Ok n s' ->
     exists s0, ensure_started OPS s = Ok tt s0 /\
                n_tag n = GFile /\ n_docs n = [fst (drain OPS s0)]).
Check C12_field_trailing : forall lines d semi g ns c c' g' d',
  p_line_end lines d semi g ns c = (c', g', d') ->
  (c' = c /\ g' = g) \/
  exists cm, c' = c ++ [cm] /\ g = cm :: g' /\ line_of lines semi = line_of lines (fst cm).
Check C12_package : forall lines E depth a0 d0 elems (term : sterm N (list comment) E) n s',
  c_prev d0 = None ->
  parse_file (policy_ops lines) (parsers_at (policy_ops lines) depth)
             (init_state a0 d0 elems term) = Ok n s' ->
  exists pos a1 t g r,
    elems = SE pos a1 t g :: r /\ n_tag n = GFile /\
    n_docs n = [lead_spec (line_c lines) (line_start_c lines) None g (Some pos)].
Check C12_parse_file : forall lines E depth a0 d0 elems (term : sterm N (list comment) E) n s',
  c_prev d0 = None -> c_lead d0 = [] ->
  parse_file (policy_ops lines) (parsers_at (policy_ops lines) depth)
             (init_state a0 d0 elems term) = Ok n s' ->
  (exists pos a1 t g r,
      elems = SE pos a1 t g :: r /\
      n_docs n = [lead_spec (line_c lines) (line_start_c lines) None g (Some pos)]) /\
  exists pkg imports decls,
    n_kids n = [pkg; nlist imports; nlist decls] /\
    Forall (decl_ok lines E elems term) decls.

Check C12_sync_not_closed_under_goback :
  exists lines (s0 s s' : cstate_t),
    sync_inv lines scan_err s0 /\ sync_inv lines scan_err s /\
    goback (policy_ops lines) (preback s0) s = Ok tt s' /\
    ~ sync_inv lines scan_err s'.
Check C12_synced_needs_docs : forall lines E (s : pstate N (list comment) cstate E) pos a1 t r,
  s_mark s = SE pos a1 t [] :: r -> synced lines E s -> c_lead (s_d s) = [].
