From Coq Require Import List NArith Bool.
From GoSyn Require Import Token Tok Scanner Ast Core Policy Entry.
From GoSyn.props Require Import C19.
Check C19_function_of_input_partial : forall U e src1 src2,
  src1 = src2 -> run_parse U e src1 = run_parse U e src2.
