From Coq Require Import List NArith.
From GoSyn Require Import Token Tok Regex Scanner.
From GoSyn.spec Require Import StrLit.
From GoSyn.props Require Import C10.
Check C10_rune_iff : forall s rest,
  hd_error s = Some 39%N -> (scan_lit_rune (s ++ rest) = inl s <-> RuneLit s).
Check C10_string_iff : forall s rest,
  (hd_error s = Some 34%N \/ hd_error s = Some 96%N) ->
  (scan_lit_string (s ++ rest) = inl s <-> StringLit s).
Check C10_rune_sound : forall l s,
  hd_error l = Some 39%N -> scan_lit_rune l = inl s ->
  (exists rest, l = s ++ rest) /\ RuneLit s.
Check C10_string_sound : forall l s,
  (hd_error l = Some 34%N \/ hd_error l = Some 96%N) ->
  scan_lit_string l = inl s -> (exists rest, l = s ++ rest) /\ StringLit s.
