From Coq Require Import String Ascii.
From Coq Require Import List NArith Bool.
From GoSyn.spec Require Import LineCol Docs.
From GoSyn Require Import Token Tok Scanner Ast Core Policy Entry.
From GoSyn.proofs Require Import Lift StreamProofs LevelProofs DocProofs PosBase
  DocNestedBase DocNestedExpr DocNestedStmt DocNested.
From GoSyn.proofs Require DocExactBase DocExactExpr DocExactStmt DocExact.
From GoSyn.props Require Import C12 C12_nested.
Import ListNotations.
Open Scope N_scope.

Check C12_next_fresh : forall lines E whole (s : pstate N (list comment) cstate E) y s',
  sinv whole s -> next (policy_ops lines) s = Ok y s' -> Fi lines E whole s'.

Check C12_goback_stale : forall lines E whole (s0 s : pstate N (list comment) cstate E) y s',
  sinv whole s0 -> goback (policy_ops lines) (preback s0) s = Ok y s' -> sinv whole s'.

Check C12_drain_fresh : forall lines E whole (s : pstate N (list comment) cstate E) c s1,
  Fi lines E whole s -> drain (policy_ops lines) s = (c, s1) ->
  Fi lines E whole s1 /\ s_cur s1 = s_cur s /\ cur_pos s1 = cur_pos s /\
  (s_cur s1 <> None -> doc_at lines whole (Some (cur_pos s1)) c).

Check C12_every_production : forall lines E whole depth,
  GoodD lines E whole (parsers_at (policy_ops lines) depth).

Check C12_full : C12_full_statement.

Check C12_type_spec_backtracks : forall lines E whole self,
  GoodD lines E whole self ->
  DS lines E whole (sgood lines whole SKType) (parse_type_spec (policy_ops lines) self).

Check C12_interface_loop_backtracks : forall lines E whole self,
  GoodD lines E whole self -> forall fuel acc,
  DS lines E whole (fun r => Forall (dgood lines whole) acc -> Forall (dgood lines whole) r)
     (interface_loop (policy_ops lines) self fuel acc).

Check C12_type_parameters_stale : forall lines E whole self,
  GoodD lines E whole self ->
  DW lines E whole (dgood lines whole) (type_parameters (policy_ops lines) self).

Check C12_type_elem_stale : forall lines E whole self,
  GoodD lines E whole self ->
  DW lines E whole (dgood lines whole) (parse_type_elem (policy_ops lines) self).

Check C12_nested_file : forall lines E depth a0 d0 elems (term : sterm N (list comment) E) f s',
  c_lead d0 = [] ->
  parse_file (policy_ops lines) (parsers_at (policy_ops lines) depth)
             (init_state a0 d0 elems term) = Ok f s' ->
  forall n, occurs n f -> node_doc_ok lines elems n.

Check C12_nested_stmt : forall lines E depth elems (s : pstate N (list comment) cstate E) e s',
  Fi lines E elems s ->
  entry_stmt (policy_ops lines) (parsers_at (policy_ops lines) depth) s = Ok e s' ->
  Fi lines E elems s' /\ forall n, occurs n e -> node_doc_ok lines elems n.

Check C12_nested_expression :
  forall lines E depth elems (s : pstate N (list comment) cstate E) e s',
  Fi lines E elems s ->
  entry_expression (policy_ops lines) (parsers_at (policy_ops lines) depth) s = Ok e s' ->
  Fi lines E elems s' /\ forall n, occurs n e -> node_doc_ok lines elems n.

Check C12_init_fresh : forall lines E elems a0 d0 (term : sterm N (list comment) E),
  c_lead d0 = [] -> Fi lines E elems (init_state a0 d0 elems term).

Check C12_nested_func_decl : forall lines whole (n : node N (list comment)),
  node_doc_ok lines whole n -> n_tag n = GFuncDecl ->
  exists c, n_docs n = [c] /\ doc_at lines whole (func_pos n) c.

Check C12_nested_field : forall lines whole (n : node N (list comment)),
  node_doc_ok lines whole n -> n_tag n = GField ->
  exists c c0, n_docs n = [c] /\ (c = c0 \/ exists x, c = c0 ++ [x]) /\
               doc_at lines whole (field_pos n) c0.

Check C12_nested_decl : forall lines whole (n : node N (list comment)) k,
  node_doc_ok lines whole n -> n_tag n = decl_tag k ->
  match n_ps n with
  | [pos0] =>
      n_docs n = [[]] /\
      exists sp c, n_kids n = [sp] /\ n_tag sp = spec_tag_of k /\ n_docs sp = [c] /\
                   doc_at lines whole (Some pos0) c
  | pos0 :: _ =>
      exists c, n_docs n = [c] /\ doc_at lines whole (Some pos0) c /\
                Forall (spec_ok lines whole (spec_tag_of k)) (n_kids n)
  | [] => False
  end.

Check C12_nested_plain : forall lines whole (n : node N (list comment)),
  node_doc_ok lines whole n ->
  match n_tag n with
  | GField | GFuncDecl | GDeclVar | GDeclConst | GDeclType
  | GVarSpec | GConstSpec | GTypeSpec | GFile => True
  | _ => n_docs n = []
  end.

Check C12_all_nodes : forall lines E depth a0 d0 elems (term : sterm N (list comment) E) f s',
  c_lead d0 = [] ->
  parse_file (policy_ops lines) (parsers_at (policy_ops lines) depth)
             (init_state a0 d0 elems term) = Ok f s' ->
  forall n, occurs n f -> forall c, In c (n_docs n) ->
  exists c0 po, (c = c0 \/ exists x, c = c0 ++ [x]) /\ doc_at lines elems po c0.

Check C12_exact_next : forall lines E whole (s : pstate N (list comment) cstate E) y s',
  xWi E whole s -> next (policy_ops lines) s = Ok y s' -> xFi lines E whole s'.

Check C12_exact_goback : forall lines E whole (s0 s : pstate N (list comment) cstate E) y s',
  xWi E whole s0 -> DocExactBase.Inv0 E s ->
  goback (policy_ops lines) (preback s0) s = Ok y s' -> xWi E whole s'.

Check C12_exact_inv0 : forall lines E, prim_closed (policy_ops lines) (DocExactBase.Inv0 E).

Check C12_exact_drain : forall lines E whole (s : pstate N (list comment) cstate E) c s1,
  xFi lines E whole s -> drain (policy_ops lines) s = (c, s1) ->
  xFi lines E whole s1 /\ s_cur s1 = s_cur s /\ cur_pos s1 = cur_pos s /\
  (s_cur s1 <> None -> xdoc_at lines whole (Some (cur_pos s1)) c).

Check C12_exact_every_production : forall lines E whole depth,
  DocExactExpr.GoodD lines E whole (parsers_at (policy_ops lines) depth).

Check C12_exact_doc_at : forall lines (whole : list (selem N (list comment))) po c,
  xdoc_at lines whole po c -> c <> [] ->
  exists pos a1 t g prev g',
    po = Some pos /\ In (SE pos a1 t g) whole /\
    c = lead_spec (line_c lines) (line_start_c lines) prev g' (Some pos) /\
    ((g' = g /\ exists pre p0 a0 t0 g0 rest,
         whole = pre ++ SE p0 a0 t0 g0 :: SE pos a1 t g :: rest /\ prev = Some a0) \/
     (g' = g /\ exists rest, whole = SE pos a1 t g :: rest /\ prev = None) \/
     (exists x, g = x :: g' /\ prev = Some (cend x))).

Check C12_exact_comments : forall lines (whole : list (selem N (list comment))) po c x,
  xdoc_at lines whole po c -> In x c ->
  exists pos a1 t g prev g',
    po = Some pos /\ xsrc whole pos a1 t g prev g' /\
    In x g' /\ ~ trailing (line_start_c lines) prev x.

Check C12_exact_file : forall lines E depth a0 d0 elems (term : sterm N (list comment) E) f s',
  c_prev d0 = None ->
  parse_file (policy_ops lines) (parsers_at (policy_ops lines) depth)
             (init_state a0 d0 elems term) = Ok f s' ->
  forall n, occurs n f -> xnode_doc_ok lines elems n.

Check C12_exact_stmt : forall lines E depth a0 d0 elems (term : sterm N (list comment) E) e s',
  c_prev d0 = None ->
  entry_stmt (policy_ops lines) (parsers_at (policy_ops lines) depth)
             (init_state a0 d0 elems term) = Ok e s' ->
  forall n, occurs n e -> xnode_doc_ok lines elems n.

Check C12_exact_expression :
  forall lines E depth a0 d0 elems (term : sterm N (list comment) E) e s',
  c_prev d0 = None ->
  entry_expression (policy_ops lines) (parsers_at (policy_ops lines) depth)
                   (init_state a0 d0 elems term) = Ok e s' ->
  forall n, occurs n e -> xnode_doc_ok lines elems n.

Check C12_exact_func_decl : forall lines whole (n : node N (list comment)),
  xnode_doc_ok lines whole n -> n_tag n = GFuncDecl ->
  exists c, n_docs n = [c] /\ xdoc_at lines whole (func_pos n) c.

Check C12_exact_field : forall lines whole (n : node N (list comment)),
  xnode_doc_ok lines whole n -> n_tag n = GField ->
  exists c c0, n_docs n = [c] /\ (c = c0 \/ exists x, c = c0 ++ [x]) /\
               xdoc_at lines whole (field_pos n) c0.

Check C12_exact_decl : forall lines whole (n : node N (list comment)) k,
  xnode_doc_ok lines whole n -> n_tag n = decl_tag k ->
  match n_ps n with
  | [pos0] =>
      n_docs n = [[]] /\
      exists sp c, n_kids n = [sp] /\ n_tag sp = spec_tag_of k /\ n_docs sp = [c] /\
                   xdoc_at lines whole (Some pos0) c
  | pos0 :: _ =>
      exists c, n_docs n = [c] /\ xdoc_at lines whole (Some pos0) c /\
                Forall (DocExactBase.spec_ok lines whole (spec_tag_of k)) (n_kids n)
  | [] => False
  end.

Check C12_exact_all_nodes :
  forall lines E depth a0 d0 elems (term : sterm N (list comment) E) f s',
  c_prev d0 = None ->
  parse_file (policy_ops lines) (parsers_at (policy_ops lines) depth)
             (init_state a0 d0 elems term) = Ok f s' ->
  forall n, occurs n f -> forall c, In c (n_docs n) ->
  exists c0 po, (c = c0 \/ exists x, c = c0 ++ [x]) /\ xdoc_at lines elems po c0.

