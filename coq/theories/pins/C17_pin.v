From Coq Require Import List NArith.
From GoSyn Require Import Token Tok Utf8.
From GoSyn.props Require Import C17.
Check C17_boundary : forall chars pos n,
  (pos < length chars)%nat ->
  exists s e,
    next_nstr_range chars pos n = Some (s, e) /\
    (s <= e <= blen chars)%nat /\
    slice (utf8 chars) s e = utf8 (firstn n (skipn pos chars)).
Check C17_valid_utf8 : forall chars pos n s e,
  (pos < length chars)%nat -> next_nstr_range chars pos n = Some (s, e) ->
  valid_utf8 (slice (utf8 chars) s e).
