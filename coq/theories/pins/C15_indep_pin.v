From Coq Require Import List Arith NArith ZArith.
From GoSyn Require Import Token Tok Ast Core.
From GoSyn.proofs Require Import Lift StreamProofs LevelProofs DepthProofs RelLift LevelIndep.
From GoSyn.props Require Import C15_indep.
Import ListNotations.

Check C15_relational_lifting :
  forall (A G D C E : Type) (OPS : ops A G D C) (R : bool -> pstate A G D E -> pstate A G D E -> Prop),
  sim_closed OPS R -> forall d, RGood R (parsers_at OPS d).
Check C15_level_repr_fields :
  forall (A G D C E : Type) (OPS : ops A G D C) d,
  let P := parsers_at (E:=E) OPS d in
  level_indep (k_type P) /\ level_indep (k_type_or_none P) /\ level_indep (k_expr P) /\
  level_indep (k_unary P) /\ (forall p prec, level_indep (k_binary P p prec)) /\
  level_indep (k_litvalue P) /\ level_indep (k_block P) /\ level_indep (k_stmt P) /\
  level_indep (k_if P).
Check C15_level_repr_top_decl :
  forall (A G D C E : Type) (OPS : ops A G D C) d (s1 s2 : pstate A G D E),
  same_level s1 s2 ->
  res_rel same_level same_level (parse_top_decl OPS (parsers_at OPS d) s1)
                                (parse_top_decl OPS (parsers_at OPS d) s2).
Check C15_level_repr_decls_loop :
  forall (A G D C E : Type) (OPS : ops A G D C) d fuel acc (s1 s2 : pstate A G D E),
  same_level s1 s2 ->
  res_rel same_level same_level (decls_loop OPS (parsers_at OPS d) fuel acc s1)
                                (decls_loop OPS (parsers_at OPS d) fuel acc s2).
Check C15_level_repr_parse_file :
  forall (A G D C E : Type) (OPS : ops A G D C) d (s1 s2 : pstate A G D E),
  same_level s1 s2 ->
  res_rel same_level same_level (parse_file OPS (parsers_at OPS d) s1)
                                (parse_file OPS (parsers_at OPS d) s2).
Check C15_level_repr_entry_expression :
  forall (A G D C E : Type) (OPS : ops A G D C) d (s1 s2 : pstate A G D E),
  same_level s1 s2 ->
  res_rel same_level same_level (entry_expression OPS (parsers_at OPS d) s1)
                                (entry_expression OPS (parsers_at OPS d) s2).
Check C15_level_repr_entry_stmt :
  forall (A G D C E : Type) (OPS : ops A G D C) d (s1 s2 : pstate A G D E),
  same_level s1 s2 ->
  res_rel same_level same_level (entry_stmt OPS (parsers_at OPS d) s1)
                                (entry_stmt OPS (parsers_at OPS d) s2).
Check C15_level_repr_stmt_pairs :
  forall (A G D C E : Type) (OPS : ops A G D C) d (s : pstate A G D E) lp ln lp' ln' x t,
  (Z.of_nat lp - Z.of_nat ln = Z.of_nat lp' - Z.of_nat ln')%Z ->
  entry_stmt OPS (parsers_at OPS d) (upd_level s lp ln) = Ok x t ->
  exists t', entry_stmt OPS (parsers_at OPS d) (upd_level s lp' ln') = Ok x t' /\ same_level t t'.
Check C15_mark_fields :
  forall (A G D C E : Type) (OPS : ops A G D C) d,
  let P := parsers_at (E:=E) OPS d in
  mark_indep (k_type P) /\ mark_indep (k_type_or_none P) /\ mark_indep (k_expr P) /\
  mark_indep (k_unary P) /\ (forall p prec, mark_indep (k_binary P p prec)) /\
  mark_indep (k_litvalue P) /\ mark_indep (k_block P) /\ mark_indep (k_stmt P) /\
  mark_indep (k_if P).
Check C15_mark_top_decl :
  forall (A G D C E : Type) (OPS : ops A G D C) d (s1 s2 : pstate A G D E),
  same_but_mark s1 s2 ->
  res_rel same_but_mark same_but_mark (parse_top_decl OPS (parsers_at OPS d) s1)
                                      (parse_top_decl OPS (parsers_at OPS d) s2).
Check C15_mark_parse_file :
  forall (A G D C E : Type) (OPS : ops A G D C) d (s1 s2 : pstate A G D E),
  same_but_mark s1 s2 ->
  res_rel same_but_mark same_but_mark (parse_file OPS (parsers_at OPS d) s1)
                                      (parse_file OPS (parsers_at OPS d) s2).
Check C15_mark_entry_expression :
  forall (A G D C E : Type) (OPS : ops A G D C) d (s1 s2 : pstate A G D E),
  same_but_mark s1 s2 ->
  res_rel same_but_mark same_but_mark (entry_expression OPS (parsers_at OPS d) s1)
                                      (entry_expression OPS (parsers_at OPS d) s2).
Check C15_mark_entry_stmt :
  forall (A G D C E : Type) (OPS : ops A G D C) d (s1 s2 : pstate A G D E),
  same_but_mark s1 s2 ->
  res_rel same_but_mark same_but_mark (entry_stmt OPS (parsers_at OPS d) s1)
                                      (entry_stmt OPS (parsers_at OPS d) s2).
Check C15_decl_after_prefix :
  forall (A G D C E : Type) (OPS : ops A G D C) d (s : pstate A G D E) m x t,
  s_lp s = S (s_ln s) -> s_depth s = 0 ->
  parse_top_decl OPS (parsers_at OPS d) s = Ok x t ->
  exists t0, parse_top_decl OPS (parsers_at OPS d) (fresh_at s m) = Ok x t0 /\ same_code t t0.
Check C15_decl_after_prefix_err :
  forall (A G D C E : Type) (OPS : ops A G D C) d (s : pstate A G D E) m e t,
  s_lp s = S (s_ln s) -> s_depth s = 0 ->
  parse_top_decl OPS (parsers_at OPS d) s = Err e t ->
  exists t0, parse_top_decl OPS (parsers_at OPS d) (fresh_at s m) = Err e t0 /\ same_code t t0.
Check C15_decl_after_prefix_conv :
  forall (A G D C E : Type) (OPS : ops A G D C) d (s : pstate A G D E) m x t0,
  s_lp s = S (s_ln s) -> s_depth s = 0 ->
  parse_top_decl OPS (parsers_at OPS d) (fresh_at s m) = Ok x t0 ->
  exists t, parse_top_decl OPS (parsers_at OPS d) s = Ok x t /\ same_code t t0.
Check C15_at_top_init :
  forall (A G D E : Type) a0 d0 elems (term : sterm A G E),
  at_top (init_state (D:=D) a0 d0 elems term).
Check C15_at_top_file_prefix :
  forall (A G D C E : Type) (OPS : ops A G D C) (s : pstate A G D E) dpi s4,
  at_top s -> file_prefix OPS s = Ok dpi s4 -> at_top s4.
Check C15_at_top_decl :
  forall (A G D C E : Type) (OPS : ops A G D C) d (s : pstate A G D E) x s',
  at_top s -> parse_top_decl OPS (parsers_at OPS d) s = Ok x s' -> at_top s'.
Check C15_decl_after_decls :
  forall (A G D C E : Type) (OPS : ops A G D C) d (s t : pstate A G D E) m,
  at_top s -> reached OPS (parsers_at OPS d) s t ->
  res_rel same_code same_code
          (parse_top_decl OPS (parsers_at OPS d) t)
          (parse_top_decl OPS (parsers_at OPS d) (fresh_at t m)).
Check C15_decls_loop_fresh :
  forall (A G D C E : Type) (OPS : ops A G D C) d fuel acc (s s0 : pstate A G D E) xs s',
  at_top s -> same_code s s0 ->
  decls_loop OPS (parsers_at OPS d) fuel acc s = Ok xs s' ->
  exists ds s0', xs = acc ++ ds /\ fresh_decls OPS (parsers_at OPS d) s0 ds s0' /\ same_code s' s0'.
Check C15_file_decls_fresh :
  forall (A G D C E : Type) (OPS : ops A G D C) d (s : pstate A G D E) x s',
  at_top s -> parse_file OPS (parsers_at OPS d) s = Ok x s' ->
  exists docs pkg imports s4 ds s0',
    file_prefix OPS s = Ok (docs, pkg, imports) s4 /\
    x = mkd A C GFile [] [] docs [pkg; nlist imports; nlist ds] /\
    fresh_decls OPS (parsers_at OPS d) s4 ds s0' /\ same_code s' s0'.

(* the relations are what the header of props/C15_indep.v says *)
Check (fun A G D E (s1 s2 : pstate A G D E) => eq_refl :
  same_level s1 s2 =
  (s_cur s1 = s_cur s2 /\ s_rest s1 = s_rest s2 /\ s_mark s1 = s_mark s2 /\
   s_term s1 = s_term s2 /\ s_spos s1 = s_spos s2 /\ s_d s1 = s_d s2 /\
   s_started s1 = s_started s2 /\ s_depth s1 = s_depth s2 /\
   (Z.of_nat (s_lp s1) - Z.of_nat (s_ln s1) = Z.of_nat (s_lp s2) - Z.of_nat (s_ln s2))%Z)).
Check (fun A G D E (s1 s2 : pstate A G D E) => eq_refl :
  same_but_mark s1 s2 =
  (s_cur s1 = s_cur s2 /\ s_rest s1 = s_rest s2 /\ s_term s1 = s_term s2 /\
   s_spos s1 = s_spos s2 /\ s_lp s1 = s_lp s2 /\ s_ln s1 = s_ln s2 /\ s_d s1 = s_d s2 /\
   s_started s1 = s_started s2 /\ s_depth s1 = s_depth s2)).
Check (fun A G D E (s1 s2 : pstate A G D E) => eq_refl :
  same_code s1 s2 =
  (s_cur s1 = s_cur s2 /\ s_rest s1 = s_rest s2 /\ s_term s1 = s_term s2 /\
   s_spos s1 = s_spos s2 /\ s_d s1 = s_d s2 /\ s_started s1 = s_started s2 /\
   s_depth s1 = s_depth s2 /\
   (Z.of_nat (s_lp s1) - Z.of_nat (s_ln s1) = Z.of_nat (s_lp s2) - Z.of_nat (s_ln s2))%Z)).
Check (fun A G D E X (P Pe : pstate A G D E -> pstate A G D E -> Prop) (r1 r2 : res A G D E X) =>
  eq_refl :
  res_rel P Pe r1 r2 =
  match r1, r2 with
  | Ok x1 t1, Ok x2 t2 => x1 = x2 /\ P t1 t2
  | Err e1 t1, Err e2 t2 => e1 = e2 /\ Pe t1 t2
  | Panic n1, Panic n2 => n1 = n2
  | Fuel, Fuel => True
  | _, _ => False
  end).
Check (fun A G D E (s : pstate A G D E) m => eq_refl :
  fresh_at s m =
  {| s_cur := s_cur s; s_rest := s_rest s; s_mark := m; s_term := s_term s; s_spos := s_spos s;
     s_lp := 1; s_ln := 0; s_d := s_d s; s_started := s_started s; s_depth := 0 |}).
Check (fun A G D E (s : pstate A G D E) => eq_refl :
  at_top s = ((Z.of_nat (s_lp s) - Z.of_nat (s_ln s) = 1)%Z /\ s_depth s = 0 /\ cur_mark s)).
Check (fun A G D E X (p : pstate A G D E -> res A G D E X) => eq_refl :
  level_indep p = (forall s1 s2, same_level s1 s2 -> res_rel same_level same_level (p s1) (p s2))).
Check (fun A G D E X (p : pstate A G D E -> res A G D E X) => eq_refl :
  mark_indep p =
  (forall s1 s2, same_but_mark s1 s2 -> res_rel same_but_mark same_but_mark (p s1) (p s2))).
Check C15Witness.level_matters.
Check C15Witness.level_pair_irrelevant.
Check C15Witness.mark_read_by_interface_loop.
