From Coq Require Import List NArith.
From GoSyn Require Import Token Tok Regex Scanner.
From GoSyn.spec Require Import NumLit.
From GoSyn.proofs Require Import NumLitProofs.
From GoSyn.props Require Import C09.
Check C09_sound : forall l k s, num_start l ->
  scan_lit_number l = inl (k, s) -> (exists rest, l = s ++ rest) /\ NumLit k s.
Check C09_complete : forall k s rest,
  NumLit k s -> num_delim rest -> scan_lit_number (s ++ rest) = inl (k, s).
Check C09_iff : forall k s rest, num_delim rest ->
  (num_start (s ++ rest) /\ scan_lit_number (s ++ rest) = inl (k, s) <-> NumLit k s).
Check C09_longest : forall l k s k' s' rest',
  scan_lit_number l = inl (k, s) -> l = s' ++ rest' -> NumLit k' s' ->
  (length s' <= length s)%nat.
Check C09_kind_unique : forall k k' s, NumLit k s -> NumLit k' s -> k = k'.
