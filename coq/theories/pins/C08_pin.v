From Coq Require Import List NArith Bool.
From GoSyn Require Import Token Tok Scanner.
From GoSyn.spec Require Import Semi.
From GoSyn.proofs Require Import SemiProofs.
From GoSyn.props Require Import C08.
Import ListNotations.
Open Scope N_scope.
Check C08_trigger : forall t,
  t <> TKeyword KPackage -> semi_trigger t = spec_trigger t.
Check C08_trigger_package_refuted :
  semi_trigger (TKeyword KPackage) = true /\ spec_trigger (TKeyword KPackage) = false.
Check C08_trigger_iff : forall t,
  semi_trigger t = true <-> (spec_trigger t = true \/ t = TKeyword KPackage).
Check C08_line_ended : forall U l,
  line_ended U l = true <-> LineEnd (is_whitespace U) l.
Check C08_line_ended_ascii : forall U l, uclass_ascii_ok U ->
  (line_ended U l = true <-> LineEnd0 (is_whitespace U) l).
Check C08_insert : forall U s,
  (exists p s', next_token U s = SR_tok p (TOperator OSemiColon) s' /\
                s_pos s' = s_pos s /\ s_rest s' = s_rest s)
  <-> (s_semi s = true /\ LineEnd (is_whitespace U) (s_rest s)).
Check C08_insert_result : forall U s,
  s_semi s = true -> LineEnd (is_whitespace U) (s_rest s) ->
  next_token U s = SR_tok (s_pos s) (TOperator OSemiColon)
    {| s_pos := s_pos s; s_rest := s_rest s; s_semi := false; s_lines := s_lines s |}.
Check C08_insert_flag : forall U s p t s',
  next_token U s = SR_tok p t s' -> s_semi s' = semi_trigger t.
Check C08_insert_recognised : forall U s p t s',
  next_token U s = SR_tok p t s' ->
  ((t = TOperator OSemiColon /\ s_pos s' = p) <->
   s_semi s && line_ended U (s_rest s) = true).
Check C08_insert_once : forall U s p t s',
  s_semi s && line_ended U (s_rest s) = true -> next_token U s = SR_tok p t s' ->
  s_semi s' && line_ended U (s_rest s') = false.
Check C08_stream_erase : forall U src,
  scan_all U src =
    (map fst (fst (scan_all_ext U src)), snd (scan_all_ext U src)).
Check C08_stream : forall U src ts e i p t en p' t' en',
  scan_all_ext U src = (ts, e) ->
  nth_error ts i = Some (p, t, en) -> nth_error ts (S i) = Some (p', t', en') ->
  ((t' = TOperator OSemiColon /\ en' = p') <->
   (semi_trigger t = true /\ LineEnd (is_whitespace U) (skipn (N.to_nat en) src))).
Check C08_stream_spec : forall U src ts e i p t en p' t' en',
  scan_all_ext U src = (ts, e) ->
  nth_error ts i = Some (p, t, en) -> nth_error ts (S i) = Some (p', t', en') ->
  ((t' = TOperator OSemiColon /\ en' = p') <->
   ((spec_trigger t = true \/ t = TKeyword KPackage) /\
    LineEnd (is_whitespace U) (skipn (N.to_nat en) src))).
Check C08_stream_loop : forall U src fuel s ts e,
  s_rest s = skipn (N.to_nat (s_pos s)) src ->
  scan_loop_ext U fuel s = (ts, e) ->
  forall i p t en p' t' en',
    nth_error ts i = Some (p, t, en) -> nth_error ts (S i) = Some (p', t', en') ->
    ((t' = TOperator OSemiColon /\ en' = p') <->
     (semi_trigger t = true /\ LineEnd (is_whitespace U) (skipn (N.to_nat en) src))).
Check C08_stream_first : forall U src ts e p t en,
  scan_all_ext U src = (ts, e) -> nth_error ts 0 = Some (p, t, en) ->
  ~ (t = TOperator OSemiColon /\ en = p).
Check C08_stream_once : forall U src ts e i p t en p' t' en',
  scan_all_ext U src = (ts, e) ->
  nth_error ts i = Some (p, t, en) -> nth_error ts (S i) = Some (p', t', en') ->
  t = TOperator OSemiColon -> ~ (t' = TOperator OSemiColon /\ en' = p').
Check C08_stream_eof : forall U src ts0 x sf,
  scan_all_ext U src = (ts0 ++ [x], SE_Eof sf) -> semi_trigger (snd (fst x)) = false.
