From Coq Require Import List NArith.
From GoSyn Require Import Token Tok Scanner.
From GoSyn.spec Require Import LineCol.
From GoSyn.proofs Require Import LineProofs.
From GoSyn.props Require Import C16.
Import ListNotations.
Open Scope N_scope.
Check C16_line_info : forall tbl p, sorted_strict tbl ->
  line_info tbl p = (adj (1 + count_le tbl p), p - last_le tbl p).
Check C16_line_refuted :
  exists tbl p, sorted_strict tbl /\ fst (line_info tbl p) <> 1 + count_le tbl p.
Check C16_line_starts_in : forall src upto y,
  In y (line_starts src upto) <->
  exists i, y = i + 1 /\ i < upto /\ nth_error src (N.to_nat i) = Some 10.
Check C16_line_info_text : forall src upto p, p <= upto ->
  line_info (line_starts src upto) p = (adj (true_line src p), true_col src p).
Check C16_lines_inv : forall U src s, reachable U src s ->
  rev (s_lines s) = line_starts src (s_pos s) /\
  s_rest s = skipn (N.to_nat (s_pos s)) src /\
  s_pos s <= N.of_nat (length src).
Check C16_token_text : forall U l tok cnt,
  scan_token U l = inl (tok, cnt) ->
  (exists rest, l = tok_text tok ++ rest) /\ cnt = lenN (tok_text tok).
Check C16_eof_table : forall U src ts s,
  scan_all U src = (ts, SE_Eof s) ->
  s_pos s = lenN src /\ rev (s_lines s) = line_starts src (lenN src).
Check C16_scanner_line_info : forall U src s p, reachable U src s -> p <= s_pos s ->
  line_info (rev (s_lines s)) p = (adj (true_line src p), true_col src p).
Check C16_lookup_stable : forall tbl extra p,
  (forall x, In x extra -> p < x) -> line_info (tbl ++ extra) p = line_info tbl p.
Check C16_lookup_stable_scanner : forall U src s s' p,
  reachable U src s -> reachable U src s' -> p <= s_pos s -> p <= s_pos s' ->
  line_info (rev (s_lines s')) p = line_info (rev (s_lines s)) p.
(* the reachability relation is the intended one *)
Check reach_init : forall U src, reachable U src (init_state src).
Check reach_tok : forall U src s p t s',
  reachable U src s -> next_token U s = SR_tok p t s' -> reachable U src s'.
Check reach_eof : forall U src s s',
  reachable U src s -> next_token U s = SR_eof s' -> reachable U src s'.
Check reach_err : forall U src s p k s',
  reachable U src s -> next_token U s = SR_err p k s' -> reachable U src s'.
