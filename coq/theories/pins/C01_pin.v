From Coq Require Import List Bool Arith.
From GoSyn Require Import Token Tok Ast Core Entry.
From GoSyn.proofs Require Import Lift TotalBase TotalLeaf TotalStepD TotalMeas TotalProofs TotalEntry.
From GoSyn.props Require Import C01.
Import ListNotations.
Close Scope N_scope.
Open Scope nat_scope.
Check C01_wf_init : forall (A G D E : Type) (a0 : A) (d0 : D) (elems : list (selem A G))
    (term : sterm A G E), wf (init_state a0 d0 elems term).
Check C01_no_panic : forall (A G D C E : Type) (OPS : ops A G D C) (d : nat)
    (s : pstate A G D E) (n : nat), wf s ->
  parse_file OPS (parsers_at OPS d) s <> Panic n /\
  entry_expression OPS (parsers_at OPS d) s <> Panic n /\
  entry_stmt OPS (parsers_at OPS d) s <> Panic n.
Check C01_wf_after : forall (A G D C E : Type) (OPS : ops A G D C) (d : nat)
    (s : pstate A G D E) (x : node A C) (s' : pstate A G D E), wf s ->
  (parse_file OPS (parsers_at OPS d) s = Ok x s' -> wf s') /\
  (entry_expression OPS (parsers_at OPS d) s = Ok x s' -> wf s') /\
  (entry_stmt OPS (parsers_at OPS d) s = Ok x s' -> wf s').
Check C01_no_panic_stmts : forall (A G D C E : Type) (OPS : ops A G D C) (d k : nat)
    (acc : list (node A C)) (s : pstate A G D E) (n : nat), wf s ->
  stmts_run OPS (parsers_at OPS d) k acc s <> Panic n.
Check C01_run_entry_no_panic : forall (e : entry) (p : prepared) (n : nat),
  run_entry e p <> Panic n.
Check C01_loop_fuel : forall (A G D C E : Type) (OPS : ops A G D C)
    (self : parsers A G D C E), Total self -> Total (step OPS self).
Check C01_loop_fuel_fields : forall (A G D C E : Type) (OPS : ops A G D C)
    (self : parsers A G D C E) (s : pstate A G D E), Total self -> WF s ->
  k_type (step OPS self) s <> Fuel /\ k_type_or_none (step OPS self) s <> Fuel /\
  k_expr (step OPS self) s <> Fuel /\ k_unary (step OPS self) s <> Fuel /\
  (forall prec, k_binary (step OPS self) None prec s <> Fuel) /\
  k_litvalue (step OPS self) s <> Fuel /\ k_block (step OPS self) s <> Fuel /\
  k_stmt (step OPS self) s <> Fuel /\ k_if (step OPS self) s <> Fuel.
Check C01_loop_fuel_entries : forall (A G D C E : Type) (OPS : ops A G D C)
    (self : parsers A G D C E) (s : pstate A G D E), Total self -> wf s ->
  parse_file OPS self s <> Fuel /\ entry_expression OPS self s <> Fuel /\
  entry_stmt OPS self s <> Fuel.
Check C01_depth_fuel_bound : DEPTH_FUEL_BOUND = 8 * (MAX_NESTING + 1) /\ DEPTH_FUEL_BOUND = 1544.
Check C01_depth_fuel : forall (A G D C E : Type) (OPS : ops A G D C) (d : nat)
    (s : pstate A G D E), DEPTH_FUEL_BOUND <= d -> wf s ->
  parse_file OPS (parsers_at OPS d) s <> Fuel /\
  entry_expression OPS (parsers_at OPS d) s <> Fuel /\
  entry_stmt OPS (parsers_at OPS d) s <> Fuel.
Check C01_depth_fuel_stmts : forall (A G D C E : Type) (OPS : ops A G D C) (d k : nat),
  DEPTH_FUEL_BOUND <= d -> forall (acc : list (node A C)) (s : pstate A G D E), wf s ->
  stmts_run OPS (parsers_at OPS d) k acc s <> Fuel.
Check C01_total : forall (A G D C E : Type) (OPS : ops A G D C) (d : nat)
    (s : pstate A G D E), DEPTH_FUEL_BOUND <= d -> wf s ->
  (exists x s', parse_file OPS (parsers_at OPS d) s = Ok x s') \/
  (exists e s', parse_file OPS (parsers_at OPS d) s = Err e s').
Check C01_depth_fuel_input : forall (A G D C E : Type) (OPS : ops A G D C) (d : nat)
    (s : pstate A G D E), wf s -> 6 * (meas s + 1) <= d ->
  parse_file OPS (parsers_at OPS d) s <> Fuel /\
  entry_expression OPS (parsers_at OPS d) s <> Fuel /\
  entry_stmt OPS (parsers_at OPS d) s <> Fuel.
Check C01_depth_fuel_input_stmts : forall (A G D C E : Type) (OPS : ops A G D C) (d k : nat)
    (acc : list (node A C)) (s : pstate A G D E), wf s -> 6 * (meas s + 1) <= d ->
  stmts_run OPS (parsers_at OPS d) k acc s <> Fuel.
Check C01_total_input : forall (A G D C E : Type) (OPS : ops A G D C) (d : nat)
    (s : pstate A G D E), wf s -> 6 * (meas s + 1) <= d ->
  (exists x s', parse_file OPS (parsers_at OPS d) s = Ok x s') \/
  (exists e s', parse_file OPS (parsers_at OPS d) s = Err e s').
Check C01_run_entry_no_fuel : forall (e : entry) (p : prepared), run_entry e p <> Fuel.
Check C01_run_entry_total : forall (e : entry) (p : prepared),
  (exists x s', run_entry e p = Ok x s') \/ (exists err s', run_entry e p = Err err s').
