From Coq Require Import List Arith NArith Bool.
From GoSyn Require Import Token Tok Ast Core.
From GoSyn.spec Require Import Prec Print.
From GoSyn.proofs Require Import PrecProofs RoundTripProofs RoundTripStmt.
From GoSyn.props Require Import C14_roundtrip.
Import ListNotations.

Check C14_expr_roundtrip : forall (A G D C E : Type) (OPS : ops A G D C) e,
  wf e -> depth e <= DEPTH_BOUND ->
  forall d a0 d0 (elems : list (selem A G)) ae ge,
    map tok_of elems = print e -> need e + 2 <= d ->
    exists n s',
      entry_expression A G D C E OPS (parsers_at A G D C E OPS d)
        (init_state A G D E a0 d0 elems (TEof ae ge)) = Ok n s' /\
      erase n = shape e /\
      s_cur A G D E s' = None /\ s_rest A G D E s' = [].

Check C14_expr_roundtrip_tokens : forall (A G D C E : Type) (OPS : ops A G D C) e,
  wf e -> depth e <= DEPTH_BOUND ->
  forall d a0 d0 (elems : list (selem A G)) ae ge (a : A),
    map tok_of elems = print e -> 3 * length elems + 2 <= d ->
    exists n s',
      entry_expression A G D C E OPS (parsers_at A G D C E OPS d)
        (init_state A G D E a0 d0 elems (TEof ae ge)) = Ok n s' /\
      erase n = erase (to_node (C := C) a e) /\
      s_cur A G D E s' = None /\ s_rest A G D E s' = [].

Check C14_expr_in_context : forall (A G D C E : Type) (OPS : ops A G D C) e,
  wf e -> forall d prec (s : pstate A G D E) rst,
    need e + 1 <= d -> tighter_than prec e -> at_toks s (print e ++ rst) -> follow prec rst ->
    s_depth A G D E s + depth e <= MAX_NESTING ->
    s_lp A G D E s + depth e <= s_ln A G D E s + 65 ->
    exists n s1,
      k_binary A G D C E (parsers_at A G D C E OPS d) None prec s = Ok n s1 /\
      erase n = shape e /\ at_toks s1 rst /\ frame s s1.

Check C14_unambiguous : forall e1 e2,
  wf e1 -> wf e2 -> depth e1 <= DEPTH_BOUND -> depth e2 <= DEPTH_BOUND ->
  print e1 = print e2 -> e1 = e2.

Check C14_shape_injective : forall e1 e2, shape e1 = shape e2 -> e1 = e2.

Check C14_shape_to_node : forall (A C : Type) (a : A) e,
  erase (to_node (C := C) a e) = shape e.

Check C14_fuel_in_tokens : forall e, need e <= 3 * length (print e).

(* the scope and the bound, pinned *)
Check (eq_refl : DEPTH_BOUND = 64).
Check EIdent : str -> exp.
Check ELit : litkind -> str -> exp.
Check EParen : exp -> exp.
Check EUnary : operator -> exp -> exp.
Check EBinary : operator -> exp -> exp -> exp.
Check ECall : exp -> list exp -> bool -> exp.
Check ESelector : exp -> str -> exp.
Check EIndex : exp -> exp -> exp.
Check EIndexList : exp -> list exp -> exp.
Check ESlice : exp -> option exp -> option exp -> option exp -> exp.

(* the printing of each production, pinned *)
Check (fun name => eq_refl : print (EIdent name) = [TLiteral LIdent name]).
Check (fun k text => eq_refl : print (ELit k text) = [TLiteral k text]).
Check (fun e => eq_refl : print (EParen e) = TOperator OParenLeft :: print e ++ [TOperator OParenRight]).
Check (fun op e => eq_refl : print (EUnary op e) = TOperator op :: print e).
Check (fun op l r => eq_refl : print (EBinary op l r) = print l ++ TOperator op :: print r).
Check (fun f a b => eq_refl :
  print (ECall f [a; b] false) =
  print f ++ TOperator OParenLeft :: (print a ++ TOperator OComma :: print b ++ []) ++ [] ++
    [TOperator OParenRight]).
Check (fun f a => eq_refl :
  print (ECall f [a] true) =
  print f ++ TOperator OParenLeft :: (print a ++ []) ++ [TOperator ODotDotDot] ++
    [TOperator OParenRight]).
Check (fun e name => eq_refl :
  print (ESelector e name) = print e ++ [TOperator ODot; TLiteral LIdent name]).
Check (fun e i => eq_refl :
  print (EIndex e i) = print e ++ TOperator OBarackLeft :: print i ++ [TOperator OBarackRight]).
Check (fun e i j => eq_refl :
  print (EIndexList e [i; j]) =
  print e ++ TOperator OBarackLeft :: (print i ++ TOperator OComma :: print j ++ []) ++
    [TOperator OBarackRight]).
Check (fun e i j k => eq_refl :
  print (ESlice e (Some i) (Some j) (Some k)) =
  print e ++ TOperator OBarackLeft :: print i ++ TOperator OColon :: print j ++
    (TOperator OColon :: print k) ++ [TOperator OBarackRight]).
Check (fun e => eq_refl :
  print (ESlice e None None None) =
  print e ++ TOperator OBarackLeft :: [] ++ TOperator OColon :: [] ++ [] ++ [TOperator OBarackRight]).

(* well-formedness of each production, pinned *)
Check (fun op l r => eq_refl :
  wf (EBinary op l r) =
  (is_binary_op op /\ at_least (level op) l /\ tighter_than (level op) r /\ wf l /\ wf r)).
Check (fun op e => eq_refl :
  wf (EUnary op e) = (unary_op op /\ unary_level e /\ wf e)).
Check (eq_refl : (unary_op OAdd /\ unary_op OSub /\ unary_op ONot /\ unary_op OXor /\
                  unary_op OStar /\ unary_op OAnd /\ unary_op OArrow) =
                 (True /\ True /\ True /\ True /\ True /\ True /\ True)).
Check (eq_refl : unary_op OTiled = False).
Check (fun f args ddd => eq_refl :
  wf (ECall f args ddd) = (primary f /\ wf f /\ all wf args /\ (ddd = true -> args <> []))).
Check (fun e name => eq_refl : wf (ESelector e name) = (primary e /\ wf e)).
Check (fun e i => eq_refl : wf (EIndex e i) = (primary e /\ wf e /\ wf i)).
Check (fun e idx => eq_refl :
  wf (EIndexList e idx) = (primary e /\ wf e /\ all wf idx /\ 2 <= length idx)).
Check (fun e lo hi mx => eq_refl :
  wf (ESlice e lo hi mx) =
  (primary e /\ wf e /\ opt wf lo /\ opt wf hi /\ opt wf mx /\ (mx <> None -> hi <> None))).
Check (fun k text => eq_refl : wf (ELit k text) = (k <> LIdent)).

Check C14_ex1 :
  wf ex1 /\ depth ex1 <= DEPTH_BOUND /\
  print ex1 =
    [tk OSub; TLiteral LIdent [a_]; tk OStar; tk OParenLeft; TLiteral LIdent [b_]; tk OAdd;
     TLiteral LIdent [c_]; tk OParenRight; tk ODot; TLiteral LIdent [f_]; tk OParenLeft;
     TLiteral LIdent [x_]; tk OComma; TLiteral LIdent [y_]; tk OParenRight; tk OBarackLeft;
     TLiteral LIdent [i_]; tk OBarackRight] /\
  demo_shape (print ex1) = Some (shape ex1).

Check C14_stmt_roundtrip : forall (A G D C E : Type) (OPS : ops A G D C) st,
  wf_stmt st -> depth_stmt st <= DEPTH_BOUND ->
  forall d a0 d0 (elems : list (selem A G)) ae ge,
    map tok_of elems = print_stmt st -> need_stmt st + 3 <= d ->
    exists n s',
      entry_stmt A G D C E OPS (parsers_at A G D C E OPS d)
        (init_state A G D E a0 d0 elems (TEof ae ge)) = Ok n s' /\
      erase n = shape_stmt st /\
      s_cur A G D E s' = None /\ s_rest A G D E s' = [].

Check C14_stmt_in_context : forall (A G D C E : Type) (OPS : ops A G D C) st,
  wf_stmt st -> forall d (s : pstate A G D E) rst,
    need_stmt st + 3 <= d ->
    s_depth A G D E s + 1 + depth_stmt st <= MAX_NESTING ->
    s_lp A G D E s + depth_stmt st <= s_ln A G D E s + 65 ->
    at_toks s (print_stmt st ++ rst) ->
    exists n s1,
      k_stmt A G D C E (parsers_at A G D C E OPS d) s = Ok n s1 /\
      erase n = shape_stmt st /\ at_toks s1 rst /\ frame s s1.

Check SExpr : exp -> stmt.
Check SAssign : operator -> list exp -> list exp -> stmt.
Check SIncDec : operator -> exp -> stmt.
Check SSend : exp -> exp -> stmt.
Check SReturn : list exp -> stmt.
Check SGo : exp -> stmt.
Check SDefer : exp -> stmt.
Check (fun op l r => eq_refl :
  print_stmt (SAssign op l r) =
  (commas (map print l) ++ TOperator op :: commas (map print r)) ++ [TOperator OSemiColon]).
Check (fun es => eq_refl :
  print_stmt (SReturn es) = (TKeyword KReturn :: commas (map print es)) ++ [TOperator OSemiColon]).
Check (fun op l r => eq_refl :
  wf_stmt (SAssign op l r) =
  (is_assign_op op = true /\ l <> [] /\ r <> [] /\ length r <= length l /\
   all wf l /\ all wf r /\ (op = ODefine -> all is_ident l))).
