From Coq Require Import List Arith NArith Bool.
From GoSyn Require Import Token Tok Ast Core.
From GoSyn.spec Require Import Prec Print Print2 Print3.
From GoSyn.proofs Require Import PrecProofs RoundTripProofs RoundTripStmt RoundTripTypesBase
  RoundTripTypes RoundTripBase2 RoundTripAll RoundTripFuel.
From GoSyn.props Require Import C02_roundtrip.
Import ListNotations.

(* ============================================================ stage A: types *)

Check C14_type_in_context : forall (A G D C E : Type) (OPS : ops A G D C) (t : typA),
  wfA t -> forall d (s : pstate A G D E) rst,
    needA t + 1 <= d -> at_toks s (printA t ++ rst) -> tfollow t rst ->
    s_depth A G D E s + depthA t <= MAX_NESTING ->
    s_ln A G D E s <= s_lp A G D E s /\ s_lp A G D E s + depthA t <= s_ln A G D E s + 64 ->
    exists n s1,
      k_type A G D C E (parsers_at A G D C E OPS d) s = Ok n s1 /\
      erase n = shapeA t /\ at_toks s1 rst /\ frame s s1.

Check C14_type_roundtrip : forall (A G D C E : Type) (OPS : ops A G D C) (t : typA),
  wfA t -> depthA t <= TDEPTH_BOUND ->
  forall d a0 d0 (elems : list (selem A G)) ae ge,
    map tok_of elems = printA t -> needA t + 1 <= d ->
    exists n s',
      entry_type A G D C E OPS (parsers_at A G D C E OPS d)
        (init_state A G D E a0 d0 elems (TEof ae ge)) = Ok n s' /\
      erase n = shapeA t /\ s_cur A G D E s' = None /\ s_rest A G D E s' = [].

Check C14_type_in_context_gen :
  forall (A G D C E : Type) (OPS : ops A G D C) (X : Type)
         (printX : X -> list token) (shapeX : X -> shapeT) (wfX : X -> Prop)
         (depthX needX : X -> nat) (t : typ X),
  wfT wfX t -> allX (XOK A G D C E OPS X printX shapeX depthX needX) t ->
  forall d (s : pstate A G D E) rst,
    needT needX t + 1 <= d -> at_toks s (printT printX t ++ rst) -> tfollow t rst ->
    s_depth A G D E s + depthT depthX t <= MAX_NESTING ->
    s_ln A G D E s <= s_lp A G D E s /\
    s_lp A G D E s + depthT depthX t <= s_ln A G D E s + 64 ->
    exists n s1,
      k_type A G D C E (parsers_at A G D C E OPS d) s = Ok n s1 /\
      erase n = shapeTy shapeX t /\ at_toks s1 rst /\ frame s s1.

(* the entry point is Parser::type_ after the first Parser::next *)
Check (fun A G D C E OPS self s => eq_refl :
  entry_type A G D C E OPS self s =
  bind A G D E (ensure_started A G D C E OPS s) (fun _ s0 => k_type A G D C E self s0)).

(* the scope and the bound, pinned *)
Check (eq_refl : TDEPTH_BOUND = 60).
Check (eq_refl : printA = printT print).
Check (eq_refl : shapeA = shapeTy shape).
Check (eq_refl : wfA = wfT wf).
Check (eq_refl : depthA = depthT depth).
Check (eq_refl : needA = needT need).
Check @TName : forall X, str -> typ X.
Check @TQual : forall X, str -> str -> typ X.
Check @TInst : forall X, typ X -> list (typ X) -> typ X.
Check @TPtr : forall X, typ X -> typ X.
Check @TSlice : forall X, typ X -> typ X.
Check @TArray : forall X, X -> typ X -> typ X.
Check @TArrayDots : forall X, typ X -> typ X.
Check @TMap : forall X, typ X -> typ X -> typ X.
Check @TChan : forall X, chandir -> typ X -> typ X.
Check @TParen : forall X, typ X -> typ X.
Check @TFunc : forall X, fsig (typ X) -> typ X.
Check @TStruct : forall X, list (sfield (typ X)) -> typ X.
Check @TInterface : forall X, list (ielem (typ X)) -> typ X.
Check @Group : forall T, list str -> bool -> T -> group T.
Check @Sig : forall T, list (group T) -> bool -> list (group T) -> fsig T.
Check @Field : forall T, list str -> T -> option str -> sfield T.
Check @IMethod : forall T, str -> fsig T -> ielem T.
Check @IUnion : forall T, list (bool * T) -> ielem T.

(* the printing of each production, pinned *)
Section PinPrint.
Variable X : Type.
Variable pX : X -> list token.
Notation P := (printT pX).
Check (fun n => eq_refl : P (TName n) = [TLiteral LIdent n]).
Check (fun p n => eq_refl : P (TQual p n) = [TLiteral LIdent p; TOperator ODot; TLiteral LIdent n]).
Check (fun b a1 a2 => eq_refl :
  P (TInst b [a1; a2]) =
  P b ++ TOperator OBarackLeft :: (P a1 ++ TOperator OComma :: P a2 ++ []) ++ [TOperator OBarackRight]).
Check (fun t => eq_refl : P (TPtr t) = TOperator OStar :: P t).
Check (fun t => eq_refl : P (TSlice t) = TOperator OBarackLeft :: TOperator OBarackRight :: P t).
Check (fun x t => eq_refl :
  P (TArray x t) = TOperator OBarackLeft :: pX x ++ TOperator OBarackRight :: P t).
Check (fun t => eq_refl :
  P (TArrayDots t) = TOperator OBarackLeft :: TOperator ODotDotDot :: TOperator OBarackRight :: P t).
Check (fun k v => eq_refl :
  P (TMap k v) = TKeyword KMap :: TOperator OBarackLeft :: P k ++ TOperator OBarackRight :: P v).
Check (fun t => eq_refl : P (TChan CBoth t) = TKeyword KChan :: P t).
Check (fun t => eq_refl : P (TChan CSend t) = TKeyword KChan :: TOperator OArrow :: P t).
Check (fun t => eq_refl : P (TChan CRecv t) = TOperator OArrow :: TKeyword KChan :: P t).
Check (fun t => eq_refl : P (TParen t) = TOperator OParenLeft :: P t ++ [TOperator OParenRight]).
Check (printT_func X pX : forall s, P (TFunc s) = TKeyword KFunc :: printSig pX s).
Check (printT_struct X pX : forall fs,
  P (TStruct fs) =
  TKeyword KStruct :: TOperator OBraceLeft :: flat_map (printF pX) fs ++ [TOperator OBraceRight]).
Check (printT_interface X pX : forall es,
  P (TInterface es) =
  TKeyword KInterface :: TOperator OBraceLeft :: flat_map (printI pX) es ++ [TOperator OBraceRight]).
Check (fun names v t => eq_refl :
  printG pX (Group names v t) =
  printNames names ++ (if v then [TOperator ODotDotDot] else []) ++ P t).
Check (fun ps paren rs => eq_refl :
  printSig pX (Sig ps paren rs) =
  TOperator OParenLeft :: commas (map (printG pX) ps) ++ TOperator OParenRight ::
  (if paren then TOperator OParenLeft :: commas (map (printG pX) rs) ++ [TOperator OParenRight]
   else commas (map (printG pX) rs))).
Check (fun names t tag => eq_refl :
  printF pX (Field names t tag) =
  printNames names ++ P t ++ printTag tag ++ [TOperator OSemiColon]).
Check (fun name s => eq_refl :
  printI pX (IMethod name s) = TLiteral LIdent name :: printSig pX s ++ [TOperator OSemiColon]).
Check (fun terms => eq_refl :
  printI pX (IUnion terms) = printUnion pX terms ++ [TOperator OSemiColon]).
End PinPrint.

(* well-formedness, pinned *)
Section PinWf.
Variable X : Type.
Variable wX : X -> Prop.
Notation W := (wfT wX).
Check (fun n => eq_refl : W (TName n) = (n <> blank)).
Check (fun b args => eq_refl :
  W (TInst b args) = (is_typename b /\ W b /\ args <> [] /\ allT W args)).
Check (fun x t => eq_refl : W (TArray x t) = (wX x /\ W t)).
Check (fun d t => eq_refl : W (TChan d t) = (W t /\ (d = CBoth -> ~ is_recv_chan t))).
Check (fun ps paren rs => eq_refl :
  W (TFunc (Sig ps paren rs)) = wfSig wX (Sig ps paren rs)).
Check (fun ps paren rs => eq_refl :
  wfSig wX (Sig ps paren rs) =
  (params_form true ps /\ (all_named ps \/ all_unnamed ps) /\
   allT (fun g => group_ok g /\ W (group_t g)) ps /\
   params_form false rs /\ (all_named rs \/ all_unnamed rs) /\
   allT (fun g => group_ok g /\ W (group_t g)) rs /\
   (paren = false -> rs = [] \/ exists t, rs = [Group [] false t] /\ ~ is_paren t))).
Check (fun names t tag => eq_refl :
  wfF wX (Field names t tag) =
  (W t /\ match names with [] => embeddable t | [_] => ~ is_dots t | _ => True end)).
Check (fun terms => eq_refl :
  wfI wX (IUnion terms) = (terms <> [] /\ allT (fun bt : bool * typ X => W (snd bt)) terms)).
End PinWf.

Check C14_type_examples :
  Forall (fun t => wfA t /\ depthA t <= TDEPTH_BOUND /\ demo_type_shape (printA t) = Some (shapeA t))
    [ty1; ty2; ty3; ty4; ty5; ty6; ty7; ty8].


(* ============================================================ stages B, C, D *)

Check C14_expr2_in_context : forall (A G D C E : Type) (OPS : ops A G D C) e hdr,
  wf2 hdr e -> forall d (s : pstate A G D E) rst,
    need2 e + 2 <= d -> at_toks s (print2 e ++ rst) -> efollow hdr e rst ->
    s_depth A G D E s + depth2 e <= MAX_NESTING -> lev A G D E hdr s (depth2 e) ->
    exists n s1,
      k_expr A G D C E (parsers_at A G D C E OPS d) s = Ok n s1 /\
      erase n = shape2 e /\ at_toks s1 rst /\ frame s s1.

Check C14_expr2_roundtrip : forall (A G D C E : Type) (OPS : ops A G D C) e,
  wf2 false e -> depth2 e <= DEPTH_BOUND2 ->
  forall d a0 d0 (elems : list (selem A G)) ae ge,
    map tok_of elems = print2 e -> need2 e + 2 <= d ->
    exists n s',
      entry_expression A G D C E OPS (parsers_at A G D C E OPS d)
        (init_state A G D E a0 d0 elems (TEof ae ge)) = Ok n s' /\
      erase n = shape2 e /\ s_cur A G D E s' = None /\ s_rest A G D E s' = [].

Check C02_stmt2_in_context : forall (A G D C E : Type) (OPS : ops A G D C) st,
  wf_stmt st -> forall d (s : pstate A G D E) rst,
    need_stmt2 st <= d -> at_toks s (print_stmt st ++ rst) -> sfollow st rst ->
    s_depth A G D E s + depth_stmt2 st <= MAX_NESTING -> lev A G D E false s (depth_stmt2 st) ->
    exists n s1,
      k_stmt A G D C E (parsers_at A G D C E OPS d) s = Ok n s1 /\
      erase n = shape_stmt st /\ at_toks s1 rst /\ frame s s1.

Check C02_block_in_context : forall (A G D C E : Type) (OPS : ops A G D C) (body : list stmt2),
  all2 wf_stmt body -> seq_ok body -> forall d (s : pstate A G D E) rst,
    need_block body <= d -> at_toks s (print_block body ++ rst) ->
    s_depth A G D E s + depth_block body <= MAX_NESTING -> levw A G D E s (depth_block body) ->
    exists n s1,
      k_block A G D C E (parsers_at A G D C E OPS d) s = Ok n s1 /\
      erase n = shape_block body /\ at_toks s1 rst /\ frame s s1.

Check C02_stmt2_roundtrip : forall (A G D C E : Type) (OPS : ops A G D C) st,
  wf_stmt st -> depth_stmt2 st <= DEPTH_BOUND2 ->
  forall d a0 d0 (elems : list (selem A G)) ae ge,
    map tok_of elems = print_stmt st -> need_stmt2 st <= d ->
    exists n s',
      entry_stmt A G D C E OPS (parsers_at A G D C E OPS d)
        (init_state A G D E a0 d0 elems (TEof ae ge)) = Ok n s' /\
      erase n = shape_stmt st /\ s_cur A G D E s' = None /\ s_rest A G D E s' = [].

Check C02_file_roundtrip : forall (A G D C E : Type) (OPS : ops A G D C) f,
  wf_file f -> depth_file f <= DEPTH_BOUND2 ->
  forall d a0 d0 (elems : list (selem A G)) ae ge,
    map tok_of elems = print_file f -> need_file f <= d ->
    exists n s',
      parse_file A G D C E OPS (parsers_at A G D C E OPS d)
        (init_state A G D E a0 d0 elems (TEof ae ge)) = Ok n s' /\
      erase n = shape_file f /\ s_cur A G D E s' = None /\ s_rest A G D E s' = [].

(* levels *)
Check (fun A G D E hdr (s : pstate A G D E) n => eq_refl :
  lev A G D E hdr s n =
  ((if hdr then s_lp A G D E s = s_ln A G D E s else s_ln A G D E s < s_lp A G D E s) /\
   s_lp A G D E s + n <= s_ln A G D E s + 65)).
Check (eq_refl : DEPTH_BOUND2 = 60).

(* the scope, pinned *)
Check E2Ident : str -> exp2.
Check E2Lit : litkind -> str -> exp2.
Check E2Paren : exp2 -> exp2.
Check E2Unary : operator -> exp2 -> exp2.
Check E2Binary : operator -> exp2 -> exp2 -> exp2.
Check E2Call : exp2 -> list exp2 -> bool -> exp2.
Check E2Selector : exp2 -> str -> exp2.
Check E2Index : exp2 -> exp2 -> exp2.
Check E2IndexList : exp2 -> list exp2 -> exp2.
Check E2Slice : exp2 -> option exp2 -> option exp2 -> option exp2 -> exp2.
Check E2Type : typ exp2 -> exp2.
Check E2FuncLit : fsig (typ exp2) -> list stmt2 -> exp2.
Check E2Composite : exp2 -> list (option elemv * elemv) -> exp2.
Check E2Assert : exp2 -> option (typ exp2) -> exp2.
Check VExpr : exp2 -> elemv.
Check VLit : list (option elemv * elemv) -> elemv.
Check StSimple : simple exp2 -> stmt2.
Check StLabel : str -> stmt2 -> stmt2.
Check StBlock : list stmt2 -> stmt2.
Check StGo : exp2 -> stmt2.
Check StDefer : exp2 -> stmt2.
Check StReturn : list exp2 -> stmt2.
Check StBranch : keyword -> option str -> stmt2.
Check StEmpty : stmt2.
Check StIf : option (simple exp2) -> exp2 -> list stmt2 -> option stmt2 -> stmt2.
Check StFor : forhdr exp2 -> list stmt2 -> stmt2.
Check StRange : list exp2 -> operator -> exp2 -> list stmt2 -> stmt2.
Check StSwitch : option (simple exp2) -> option exp2 -> list (option (list exp2) * list stmt2) -> stmt2.
Check StTypeSwitch : option (simple exp2) -> option str -> exp2 ->
                     list (option (list (typ exp2)) * list stmt2) -> stmt2.
Check StSelect : list (option (comm exp2) * list stmt2) -> stmt2.
Check StDecl : decl exp2 (typ exp2) -> stmt2.
Check FuncDecl : option (list (group typ2)) -> str -> list (list str * list (bool * typ2)) ->
                 sig2 -> option (list stmt2) -> funcdecl.
Check @SpType exp2 typ2 : str -> bool -> typ2 -> spec2.
(* type declarations with type parameters: groups `names constraint`, the constraint a union *)
Check @SpTypeG exp2 typ2 : str -> list (list str * list (bool * typ2)) -> bool -> typ2 -> spec2.
Check File : str -> list (bool * list importspec) -> list topdecl -> file.

(* printing, pinned (the statement terminators are the convention) *)
Check (fun t => eq_refl : print2 (E2Type t) = printT print2 t).
Check (fun e t => eq_refl :
  print2 (E2Assert e (Some t)) =
  print2 e ++ TOperator ODot :: TOperator OParenLeft :: printT print2 t ++ [TOperator OParenRight]).
Check (fun s => eq_refl : print_stmt (StSimple s) = print_simple print2 s ++ [TOperator OSemiColon]).
Check (fun body => eq_refl :
  print_stmt (StBlock body) = TOperator OBraceLeft :: flat_map print_stmt body ++ [TOperator OBraceRight]).
Check (fun h body => eq_refl :
  print_stmt (StFor h body) =
  TKeyword KFor :: print_forhdr print2 h ++ TOperator OBraceLeft :: flat_map print_stmt body ++
  [TOperator OBraceRight]).
Check (fun name st => eq_refl :
  print_stmt (StLabel name st) =
  TLiteral LIdent name :: TOperator OColon :: print_stmt st ++
  (if terminated st then [] else [TOperator OSemiColon])).
Check (eq_refl : print_stmt StEmpty = [TOperator OSemiColon]).
Check (fun es => eq_refl :
  print_stmt (StReturn es) = TKeyword KReturn :: commas (map print2 es) ++ [TOperator OSemiColon]).
Check (fun name alias ty => eq_refl :
  print_spec print2 (printT print2) (SpType name alias ty) =
  TLiteral LIdent name :: (if alias then [TOperator OAssign] else []) ++ printT print2 ty).
Check (fun name tps alias ty => eq_refl :
  print_spec print2 (printT print2) (SpTypeG name tps alias ty) =
  TLiteral LIdent name :: TOperator OBarackLeft ::
  commas (map (fun g : list str * list (bool * typ2) =>
                 printNames (fst g) ++ printUnion print2 (snd g)) tps) ++
  TOperator OBarackRight :: (if alias then [TOperator OAssign] else []) ++ printT print2 ty).
Check (fun name tps alias ty => eq_refl :
  shape_spec shape2 (shapeTy shape2) (SpTypeG name tps alias ty) =
  mkd unit unit GTypeSpec [] [ABool alias] tt
    [sh_ident name;
     sh_fieldlist true
       (map (fun g : list str * list (bool * typ2) =>
               sh_field (fst g) (shapeUnion shape2 (snd g)) None) tps);
     shapeTy shape2 ty]).
Check (fun pkg imports decls => eq_refl :
  print_file (File pkg imports decls) =
  TKeyword KPackage :: TLiteral LIdent pkg :: TOperator OSemiColon ::
  flat_map print_import imports ++ flat_map print_topdecl decls).

(* side conditions, pinned *)
Check (fun hdr op l r => eq_refl :
  wf2 hdr (E2Binary op l r) =
  (is_binary_op op /\ at_least2 (level op) l /\ tighter_than2 (level op) r /\
   wf2 hdr l /\ wf2 hdr r /\
   (op = OStar -> match last_prim l with E2Type ty => tail ty <> KFuncNoResult | _ => True end))).
Check (fun hdr e => eq_refl : wf2 hdr (E2Paren e) = wf2 false e).
Check (fun hdr e => eq_refl : wf2 hdr (E2Assert e None) = (primary2 e /\ base_dot e /\ wf2 hdr e /\ False)).
Check (fun name st => eq_refl : wf_stmt (StLabel name st) = wf_stmt st).
Check (fun body => eq_refl : wf_stmt (StBlock body) = (all2 wf_stmt body /\ seq_ok body)).
Check (fun sg body => eq_refl :
  wf2 false (E2FuncLit sg body) = (wfSig (wf2 false) sg /\ all2 wf_stmt body /\ seq_ok body)).
(* labels on statements that took their own ";" are open-ended: no empty statement after them *)
Check (fun name st => eq_refl : open_end (StLabel name st) = terminated st).
Check (eq_refl : open_end StEmpty = false).
Check (fun body => eq_refl : open_end (StBlock body) = false).
Check (fun st nxt r => eq_refl :
  seq_ok (st :: nxt :: r) =
  ((open_end st = true -> is_empty_stmt nxt = false) /\ seq_ok (nxt :: r))).
Check (fun st => eq_refl : seq_ok [st] = (True /\ True)).
Check (eq_refl : seq_ok [] = True).
Check (eq_refl : is_empty_stmt StEmpty = true).
Check (fun s => eq_refl : is_empty_stmt (StSimple s) = false).
Check (fun st rst => eq_refl :
  sfollow st rst =
  (open_end st = true ->
   match rst with t :: _ => tok_is t (KOp OSemiColon) = false | [] => True end)).
Check C02_label_print.
Check C02_label_follow_necessary :
  ~ wf_stmt s2_bad3 /\
  print_stmt s2_bad3 =
    [tk OBraceLeft; TLiteral LIdent [a_]; tk OColon;
     TLiteral LIdent [f_]; tk OParenLeft; tk OParenRight; tk OSemiColon; tk OSemiColon;
     tk OBraceRight] /\
  demo_stmt_shape (print_stmt s2_bad3) =
    Some (shape_stmt (StBlock [StLabel [a_] (StSimple (SmExpr (E2Call (I_ f_) [] false)))])) /\
  demo_stmt_shape (print_stmt s2_bad3) <> Some (shape_stmt s2_bad3).
Check (fun k index name tps alias ty => eq_refl :
  wf_spec k index (SpTypeG name tps alias ty) =
  (k = SKType /\ wfT (wf2 false) ty /\
   all2 (fun g : list str * list (bool * typ2) =>
           fst g <> [] /\ snd g <> [] /\
           all2 (fun bt : bool * typ2 => wfT (wf2 false) (snd bt)) (snd g) /\
           match snd g with
           | (false, TArrayDots _) :: _ => False
           | (false, (TSlice _ | TArray _ _)) :: r => r = []
           | _ => True
           end) tps /\
   match tps with
   | (_, (tilde, t) :: _) :: _ =>
       tilde = true \/
       match t with
       | TName _ | TQual _ _ | TInst _ _ | TInterface _ | TMap _ _ | TChan _ _ | TStruct _
       | TFunc _ => True
       | _ => False
       end
   | _ => False
   end)).
Check (fun hdr e => eq_refl :
  brace_stop hdr e =
  match last_class e with BAlways => False | BLevel => hdr = true | BNever => True end).

Check C02_file_example : demo_file_shape (print_file file1) = Some (shape_file file1).
Check C02_file2_example : demo_file_shape (print_file file2) = Some (shape_file file2).

Check C02_file_unambiguous : forall f1 f2,
  wf_file f1 -> wf_file f2 -> depth_file f1 <= DEPTH_BOUND2 -> depth_file f2 <= DEPTH_BOUND2 ->
  print_file f1 = print_file f2 -> shape_file f1 = shape_file f2.
Check C02_stmt2_unambiguous : forall st1 st2,
  wf_stmt st1 -> wf_stmt st2 -> depth_stmt2 st1 <= DEPTH_BOUND2 -> depth_stmt2 st2 <= DEPTH_BOUND2 ->
  print_stmt st1 = print_stmt st2 -> shape_stmt st1 = shape_stmt st2.

Check C02_file_roundtrip_tokens : forall (A G D C E : Type) (OPS : ops A G D C) f,
  wf_file f -> depth_file f <= DEPTH_BOUND2 ->
  forall d a0 d0 (elems : list (selem A G)) ae ge,
    map tok_of elems = print_file f -> 13 * length elems <= d ->
    exists n s',
      parse_file A G D C E OPS (parsers_at A G D C E OPS d)
        (init_state A G D E a0 d0 elems (TEof ae ge)) = Ok n s' /\
      erase n = shape_file f /\ s_cur A G D E s' = None /\ s_rest A G D E s' = [].
Check C02_fuel_in_tokens : forall f, need_file f <= 13 * length (print_file f).
