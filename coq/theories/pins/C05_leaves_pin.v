From Coq Require Import String List NArith Sorted.
From GoSyn Require Import Token Tok Scanner Ast Core Policy Entry.
From GoSyn.spec Require Import Lex.
From GoSyn.proofs Require Import Lift CommentProofs AccountBase SourceProofs.
From GoSyn.props Require Import C05_leaves.
Import ListNotations.
Local Open Scope N_scope.
Check C06_group_stream : forall ts g,
  map pe (fst (group_stream ts g)) =
  map (fun x => (fst (fst x), snd (fst x))) (filter (fun x => negb (is_comment_tok (snd (fst x)))) ts).
Check C06_source : forall U src p f s',
  prepare U src = Some p ->
  run_entry EFile p = Ok f s' ->
  leaves f =
    identlits (map (fun x => (fst (fst x), snd (fst x)))
                   (filter (fun x => negb (is_comment_tok (snd (fst x))))
                           (fst (scan_all_ext U src)))) /\
  balanced (map (fun x => (fst (fst x), snd (fst x)))
                (filter (fun x => negb (is_comment_tok (snd (fst x))))
                        (fst (scan_all_ext U src)))).
Check C06_source_lit_tokens : forall U src p f s',
  prepare U src = Some p ->
  run_entry EFile p = Ok f s' ->
  leaves f = lit_tokens (fst (scan_all_ext U src)).
Check C05_leaf_positions : forall U src p f s',
  prepare U src = Some p ->
  run_entry EFile p = Ok f s' ->
  (forall pos tok, In (pos, tok) (leaves f) ->
     slice src pos (pos + lenN (tok_text tok)) = tok_text tok /\ tok_text tok <> []) /\
  StronglySorted N.lt (map fst (leaves f)).
Check C05_leaf_in_source : forall U src p f s',
  prepare U src = Some p ->
  run_entry EFile p = Ok f s' ->
  forall pos tok, In (pos, tok) (leaves f) -> pos + lenN (tok_text tok) <= lenN src.
Check C05_comment_positions : forall U src p f s',
  prepare U src = Some p ->
  run_entry EFile p = Ok f s' ->
  (forall pos text, In (pos, text) (rev (c_all (s_d s'))) ->
     slice src pos (pos + lenN text) = text /\ text <> []) /\
  StronglySorted N.lt (map fst (rev (c_all (s_d s')))).
Check C05_node_lexeme : forall U src p f s',
  prepare U src = Some p ->
  run_entry EFile p = Ok f s' ->
  forall n pos tok, in_tree n f -> node_lexeme n = Some (pos, tok) ->
  slice src pos (pos + lenN (tok_text tok)) = tok_text tok /\ tok_text tok <> [].
Check C05_ident_text_is_source : forall U src p f s',
  prepare U src = Some p ->
  run_entry EFile p = Ok f s' ->
  forall pos ps name ats docs ks,
  in_tree (Nd GIdent (pos :: ps) (AStr name :: ats) docs ks) f -> name <> [46] ->
  slice src pos (pos + lenN name) = name /\ name <> [].
Check C05_basiclit_text_is_source : forall U src p f s',
  prepare U src = Some p ->
  run_entry EFile p = Ok f s' ->
  forall pos ps k v ats docs ks,
  in_tree (Nd GBasicLit (pos :: ps) (ALk k :: AStr v :: ats) docs ks) f -> v <> [46] ->
  slice src pos (pos + lenN v) = v /\ v <> [].
Check C05_stringlit_text_is_source : forall U src p f s',
  prepare U src = Some p ->
  run_entry EFile p = Ok f s' ->
  forall pos ps v ats docs ks,
  in_tree (Nd GStringLit (pos :: ps) (AStr v :: ats) docs ks) f ->
  slice src pos (pos + lenN v) = v /\ v <> [].
(* the definitions the statements rest on *)
Check eq_refl : is_comment_tok = fun t => match t with TComment _ => true | _ => false end.
Check eq_refl : @tok_of = fun x : N * token * N => (fst (fst x), snd (fst x)).
Check eq_refl : lit_tokens = fun ts => map tok_of (filter (fun x => is_lit_tok (snd (fst x))) ts).
Check eq_refl : slice = fun (src : str) (p e : N) => firstn (N.to_nat (e - p)) (skipn (N.to_nat p) src).
