From Coq Require Import List NArith Bool Permutation.
From GoSyn Require Import Token Tok Regex Scanner.
From GoSyn.spec Require Import Lex.
From GoSyn.proofs Require Import NumLitProofs LexProofs.
From GoSyn.props Require Import C07.
Import ListNotations.
Open Scope N_scope.
Check C07_token_prefix : forall U l tok cnt, l <> [] ->
  scan_token U l = inl (tok, cnt) ->
  cnt = lenN (tok_text tok) /\ exists rest, l = tok_text tok ++ rest /\ tok_text tok <> [].
Check C07_tiles_from : forall U src fuel s toks e, scan_inv src s ->
  scan_loop_ext U fuel s = (toks, e) ->
  tiling (is_whitespace U) src (s_pos s) toks /\ end_ok U src (s_pos s) toks e.
Check C07_tiles : forall U src fuel toks e,
  scan_loop_ext U fuel (init_state src) = (toks, e) ->
  tiling (is_whitespace U) src 0 toks /\
  offsets_sorted toks /\
  retile src 0 toks ++ skipn (N.to_nat (tiling_end 0 toks)) src = src /\
  (forall s, e = SE_Eof s ->
     Forall (fun c => is_whitespace U c = true) (skipn (N.to_nat (tiling_end 0 toks)) src) /\
     s_pos s = lenN src /\ s_rest s = []) /\
  (forall p k s, e = SE_Err p k s ->
     tiling_end 0 toks <= s_pos s /\ s_pos s <= p /\
     Forall (fun c => is_whitespace U c = true) (slice src (tiling_end 0 toks) (s_pos s)) /\
     s_rest s = skipn (N.to_nat (s_pos s)) src).
Check C07_tiles_all : forall U src toks e,
  scan_all_ext U src = (toks, e) ->
  e <> SE_Fuel /\
  tiling (is_whitespace U) src 0 toks /\
  offsets_sorted toks /\
  retile src 0 toks ++ skipn (N.to_nat (tiling_end 0 toks)) src = src /\
  (forall s, e = SE_Eof s ->
     Forall (fun c => is_whitespace U c = true) (skipn (N.to_nat (tiling_end 0 toks)) src) /\
     s_pos s = lenN src /\ s_rest s = []).
Check C07_real_tile_lt : forall src p t e, real_tile src p t e -> p < e.
Check C07_op_table :
  Permutation (map op_str all_operators) spec_operators /\
  NoDup (map op_str all_operators) /\ NoDup spec_operators /\
  length spec_operators = 48%nat /\ length all_operators = 48%nat /\
  (forall op, In op all_operators) /\
  (forall op, (1 <= length (op_str op) <= 3)%nat).
Check C07_longest : forall U l op cnt,
  scan_token U l = inl (TOperator op, cnt) ->
  cnt = lenN (op_str op) /\ is_prefix (op_str op) l /\
  forall op', is_prefix (op_str op') l -> (length (op_str op') <= length (op_str op))%nat.
Check C07_op_first_char : forall op, exists c r, op_str op = c :: r /\
  (c < 128 /\ ascii_letter c = false /\ c <> 95) /\ is_decimal_digit c = false /\
  c <> 39 /\ c <> 34 /\ c <> 96 /\ op_of_str [c] <> None.
Check C07_operator_complete : forall U l op',
  uclass_ascii_ok U -> is_prefix (op_str op') l ->
  firstn 2 l <> [47; 47] -> firstn 2 l <> [47; 42] -> num_startb l = false ->
  exists op, scan_token U l = inl (TOperator op, lenN (op_str op)) /\
    is_prefix (op_str op) l /\
    (length (op_str op') <= length (op_str op))%nat.
Check C07_operator_complete' : forall U l op',
  uclass_ascii_ok U -> is_prefix (op_str op') l ->
  firstn 2 l <> [47; 47] -> firstn 2 l <> [47; 42] ->
  (forall c1 l2, l = 46 :: c1 :: l2 -> is_decimal_digit c1 = false) ->
  exists op, scan_token U l = inl (TOperator op, lenN (op_str op)) /\
    is_prefix (op_str op) l /\
    (length (op_str op') <= length (op_str op))%nat.
Check C07_line_comment_wins : forall U l, firstn 2 l = [47; 47] ->
  scan_token U l = inl (TComment (take_until_nl l), lenN (take_until_nl l)).
Check C07_block_comment_wins : forall U l, firstn 2 l = [47; 42] ->
  scan_token U l =
  match gc_body (skipn 2 l) with
  | Some b => inl (TComment (47 :: 42 :: b), lenN (47 :: 42 :: b))
  | None => inr (0, SE_comment_not_terminated)
  end.
Check C07_dot_digit_is_number : forall U c1 l2, is_decimal_digit c1 = true ->
  scan_token U (46 :: c1 :: l2) =
  match scan_lit_number (46 :: c1 :: l2) with
  | inl (k, s) => inl (TLiteral k s, lenN s)
  | inr e => inr e
  end.
Check C07_kw_table :
  map kw_str all_keywords = spec_keywords /\ NoDup spec_keywords /\
  length spec_keywords = 25%nat /\ (forall k, In k all_keywords).
Check C07_keywords : forall U l c l1,
  uclass_ascii_ok U -> l = c :: l1 -> is_letter U c = true ->
  let w := take_while (ident_char U) l in
  Identifier U w /\
  (exists rest, l = w ++ rest /\ ident_stop U rest) /\
  (forall k, scan_token U l = inl (TKeyword k, lenN w) <-> w = kw_str k) /\
  (scan_token U l = inl (TLiteral LIdent w, lenN w) <-> ~ In w spec_keywords).
Check C07_keyword_inv : forall U l k cnt,
  scan_token U l = inl (TKeyword k, cnt) ->
  take_while (ident_char U) l = kw_str k /\ Identifier U (kw_str k) /\
  exists rest, l = kw_str k ++ rest /\ ident_stop U rest.
Check C07_ident_inv : forall U l w cnt,
  scan_token U l = inl (TLiteral LIdent w, cnt) ->
  take_while (ident_char U) l = w /\ Identifier U w /\ ~ In w spec_keywords /\
  exists rest, l = w ++ rest /\ ident_stop U rest.
Check C07_no_fuel : forall U src, snd (scan_all_ext U src) <> SE_Fuel.
Check C07_no_fuel_scan_all : forall U src, snd (scan_all U src) <> SE_Fuel.
