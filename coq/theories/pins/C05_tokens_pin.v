From Coq Require Import List NArith Bool Sorted.
From GoSyn Require Import Token Tok Ast Core.
From GoSyn.proofs Require Import Lift PosBase PosExpr PosStmt PosProofs.
From GoSyn.proofs Require Import PosOrder PosOrderExpr PosOrderStmt PosOrderProofs.
From GoSyn.props Require Import C05_tokens.
Import ListNotations.
Check C05_positions_name_tokens :
  forall A G D C E (OPS : ops A G D C) d a0 d0 elems (term : sterm A G E) f s',
  parse_file OPS (parsers_at OPS d) (init_state a0 d0 elems term) = Ok f s' ->
  forall n, occurs n f -> forall p pred, In (p, pred) (pos_spec n) ->
  exists a1 t g, In (SE p a1 t g) elems /\ pred t = true.
Check C05_positions_node_ok :
  forall A G D C E (OPS : ops A G D C) d a0 d0 elems (term : sterm A G E) f s',
  parse_file OPS (parsers_at OPS d) (init_state a0 d0 elems term) = Ok f s' ->
  forall n, occurs n f ->
    pos_layout n = true /\
    (forall p pred, In (p, pred) (pos_spec n) ->
       exists a1 t g, In (SE p a1 t g) elems /\ pred t = true) /\
    pair_ok elems (n_tag n) (n_ps n).
Check C05_entry_expression :
  forall A G D C E (OPS : ops A G D C) d elems (s : pstate A G D E) e s',
  sinv elems s -> entry_expression OPS (parsers_at OPS d) s = Ok e s' ->
  sinv elems s' /\ forall n, occurs n e -> node_ok elems n.
Check C05_entry_stmt :
  forall A G D C E (OPS : ops A G D C) d elems (s : pstate A G D E) e s',
  sinv elems s -> entry_stmt OPS (parsers_at OPS d) s = Ok e s' ->
  sinv elems s' /\ forall n, occurs n e -> node_ok elems n.
Check C05_init_in_stream :
  forall A G D E elems a0 (d0 : D) (term : sterm A G E),
  sinv elems (init_state a0 d0 elems term).
Check C05_table :
  forall A G D C E (OPS : ops A G D C) whole d, GoodP (E:=E) whole (parsers_at OPS d).
Check C05_brackets_ordered :
  forall G D C E (OPS : ops N G D C) d a0 (d0 : D) elems (term : sterm N G E) f s',
  StronglySorted N.lt (allp elems term) ->
  parse_file OPS (parsers_at OPS d) (init_state a0 d0 elems term) = Ok f s' ->
  forall n l r, occurs n f -> pair_of (n_tag n) (n_ps n) = Some (l, r) ->
  (l < r)%N /\
  forall k, In k (inside (n_tag n) (n_kids n)) -> forall p, In p (allpos k) -> (l < p /\ p < r)%N.
Check C05_pair_here :
  forall G D C E (OPS : ops N G D C) d a0 (d0 : D) elems (term : sterm N G E) f s',
  StronglySorted N.lt (allp elems term) ->
  parse_file OPS (parsers_at OPS d) (init_state a0 d0 elems term) = Ok f s' ->
  forall n, occurs n f -> pair_here (n_tag n) (n_ps n) (n_kids n).
Check C05_order_table :
  forall G D C E (OPS : ops N G D C) whole (term : sterm N G E) d,
  StronglySorted N.lt (allp whole term) -> GoodO whole term (parsers_at OPS d).
Check eq_refl : allp [SE 0%N 3%N (TKeyword KPackage) tt; SE 10%N 13%N (TOperator OSemiColon) tt]
                     (@TEof N unit unit 20%N tt) = [0%N; 10%N; 20%N].
Check eq_refl : pair_of GDeclVar [1%N; 2%N; 3%N] = Some (2%N, 3%N).

(* the obligations of some tags, as computed *)
Check eq_refl : pos_spec (A:=nat) (C:=unit) (Nd GCall [1; 2] [] [] []) =
                [(1, is_op OParenLeft); (2, is_op OParenRight)].
Check eq_refl : pos_spec (A:=nat) (C:=unit) (Nd GOperation [1] [AOp OAdd] [] []) = [(1, is_op OAdd)].
Check eq_refl : pos_spec (A:=nat) (C:=unit) (Nd GTypeChannel [1; 2] [ADir 0] [] []) = [(1, is_kw KChan)].
Check eq_refl : pos_spec (A:=nat) (C:=unit) (Nd GTypeChannel [1; 2] [ADir 2] [] []) =
                [(1, is_kw KChan); (2, is_op OArrow)].
Check eq_refl : pos_spec (A:=nat) (C:=unit) (Nd GCaseClause [1; 2] [AKw KDefault] [] []) =
                [(1, is_kw KDefault); (2, is_op OColon)].
Check eq_refl : pos_spec (A:=nat) (C:=unit) (Nd GDeclConst [1; 2; 3] [] [] []) =
                [(1, is_kw KConst); (2, is_op OParenLeft); (3, is_op OParenRight)].
Check eq_refl : pos_spec (A:=nat) (C:=unit) (Nd GEmpty [1] [] [] []) = [].
