From Coq Require Import List.
From GoSyn Require Import Token Tok Ast Core.
From GoSyn.spec Require Import Prec Print Print2 Print3.
From GoSyn.proofs Require Import RoundTripBase2 TrailingComma.
From GoSyn.props Require Import C13_trailing.
Import ListNotations.

(* PQP2_toks is the body of RoundTripBase2.PQP2 with the token list as a parameter *)
Check (fun A G D C E OPS hdr e => eq_refl :
  PQP2 A G D C E OPS hdr e = PQP2_toks A G D C E OPS hdr e (print2 e)).

Check (eq_refl : PQP2_toks = fun (A G D C E : Type) (OPS : ops A G D C)
  (hdr : bool) (e : exp2) (toks : list token) =>
  primary2 e -> forall d (s : pstate A G D E) rst,
  need2 e <= S d -> at_toks s (toks ++ rst) -> opfollow e rst ->
  s_depth A G D E s + depth2 e <= S MAX_NESTING -> lev A G D E hdr s (depth2 e) ->
  exists n s1 fuel1,
    erase n = shape2 e /\ at_toks s1 rst /\ frame s s1 /\ length rst + 1 <= fuel1 /\
    primary_expression A G D C E OPS (parsers_at A G D C E OPS d) None s =
    primary_loop A G D C E OPS (parsers_at A G D C E OPS d) fuel1 n s1).

Check C13_call_trailing_comma : forall (A G D C E : Type) (OPS : ops A G D C) hdr f args,
  wf2 hdr (E2Call f args false) -> args <> [] ->
  PQP2_toks A G D C E OPS hdr (E2Call f args false)
    (print2 f ++ tk OParenLeft :: commas (map print2 args) ++ [tk OComma; tk OParenRight]).

Check C13_call_ddd_trailing_comma : forall (A G D C E : Type) (OPS : ops A G D C) hdr f args,
  wf2 hdr (E2Call f args true) ->
  PQP2_toks A G D C E OPS hdr (E2Call f args true)
    (print2 f ++ tk OParenLeft :: commas (map print2 args) ++
       [tk ODotDotDot; tk OComma; tk OParenRight]).

(* non-vacuity *)
Check tc_wf : wf2 false (E2Call tc_f tc_args false) /\ tc_args <> [].
Check tc_wf_ddd : wf2 false (E2Call tc_f tc_args true).

Check C13_composite_trailing_comma : forall (A G D C E : Type) (OPS : ops A G D C) hdr ty elems,
  wf2 hdr (E2Composite ty elems) -> elems <> [] ->
  PQP2_toks A G D C E OPS hdr (E2Composite ty elems)
    (print2 ty ++ tk OBraceLeft :: commas (map print_elem elems) ++ [tk OComma; tk OBraceRight]).

Check tc_lit_wf : wf2 false (E2Composite tc_ty tc_elems) /\ tc_elems <> [].

Check C13_call_trailing_comma_roundtrip :
  forall (A G D C E : Type) (OPS : ops A G D C) f args,
  wf2 false (E2Call f args false) -> args <> [] ->
  depth2 (E2Call f args false) <= DEPTH_BOUND2 ->
  forall d a0 d0 (elems : list (selem A G)) ae ge,
    map tok_of elems =
      print2 f ++ tk OParenLeft :: commas (map print2 args) ++ [tk OComma; tk OParenRight] ->
    need2 (E2Call f args false) + 2 <= d ->
    exists n s',
      entry_expression A G D C E OPS (parsers_at A G D C E OPS d)
        (init_state A G D E a0 d0 elems (TEof ae ge)) = Ok n s' /\
      erase n = shape2 (E2Call f args false) /\ s_cur A G D E s' = None /\ s_rest A G D E s' = [].

Check C13_call_ddd_trailing_comma_roundtrip :
  forall (A G D C E : Type) (OPS : ops A G D C) f args,
  wf2 false (E2Call f args true) ->
  depth2 (E2Call f args true) <= DEPTH_BOUND2 ->
  forall d a0 d0 (elems : list (selem A G)) ae ge,
    map tok_of elems =
      print2 f ++ tk OParenLeft :: commas (map print2 args) ++
        [tk ODotDotDot; tk OComma; tk OParenRight] ->
    need2 (E2Call f args true) + 2 <= d ->
    exists n s',
      entry_expression A G D C E OPS (parsers_at A G D C E OPS d)
        (init_state A G D E a0 d0 elems (TEof ae ge)) = Ok n s' /\
      erase n = shape2 (E2Call f args true) /\ s_cur A G D E s' = None /\ s_rest A G D E s' = [].

Check C13_composite_trailing_comma_roundtrip :
  forall (A G D C E : Type) (OPS : ops A G D C) ty elems,
  wf2 false (E2Composite ty elems) -> elems <> [] ->
  depth2 (E2Composite ty elems) <= DEPTH_BOUND2 ->
  forall d a0 d0 (els : list (selem A G)) ae ge,
    map tok_of els =
      print2 ty ++ tk OBraceLeft :: commas (map print_elem elems) ++ [tk OComma; tk OBraceRight] ->
    need2 (E2Composite ty elems) + 2 <= d ->
    exists n s',
      entry_expression A G D C E OPS (parsers_at A G D C E OPS d)
        (init_state A G D E a0 d0 els (TEof ae ge)) = Ok n s' /\
      erase n = shape2 (E2Composite ty elems) /\ s_cur A G D E s' = None /\ s_rest A G D E s' = [].

(* the model parser rejects a trailing comma in an index list *)
Check tc_index_trailing_rejected.
