From Coq Require Import List Arith NArith Bool.
From GoSyn Require Import Token Tok Ast Core.
From GoSyn.spec Require Import Prec.
From GoSyn.proofs Require Import PrecProofs.
From GoSyn.props Require Import C04.
Import ListNotations.

Check C04_table : forall o,
  N.of_nat (prec_nat o) = spec_prec o /\ spec_prec o = table_prec o /\ prec_nat o = level o.

Check C04_levels : forall o,
  level o = 5 /\ In o [OStar; OQuo; ORem; OShl; OShr; OAnd; OAndNot] \/
  level o = 4 /\ In o [OAdd; OSub; OOr; OXor] \/
  level o = 3 /\ In o [OEqual; ONotEqual; OLess; OLessEqual; OGreater; OGreaterEqual] \/
  level o = 2 /\ o = OAndAnd \/
  level o = 1 /\ o = OOrOr \/
  level o = 0 /\ ~ In o (map fst spec_table).

Check C04_left_assoc : forall (A C : Type) pos op (l : bexp A C) pos' op' l' r',
  PrecWF (Bin pos op l (Bin pos' op' l' r')) -> level op < level op'.

Check C04_tighter_below : forall (A C : Type) pos op pos' op' l' r' (r : bexp A C),
  PrecWF (Bin pos op (Bin pos' op' l' r') r) -> level op <= level op'.

Check C04_grouping_unique : forall (A C : Type) (t1 t2 : bexp A C),
  PrecWF t1 -> PrecWF t2 -> flat t1 = flat t2 -> t1 = t2.

Check C04_sound_step : forall (A G D C E : Type) (OPS : ops A G D C)
    (U : pstate A G D E -> node A C -> pstate A G D E -> Prop) (self : parsers A G D C E),
  (forall s x s', k_unary A G D C E self s = Ok x s' -> U s x s') ->
  (forall q s n s', k_binary A G D C E self None q s = Ok n s' -> BinOK OPS U q s n s') ->
  forall p s n s',
    binary_body A G D C E OPS self None p s = Ok n s' -> BinOK OPS U p s n s'.

Check C04_sound : forall (A G D C E : Type) (OPS : ops A G D C) d p s n s',
  k_binary A G D C E (parsers_at A G D C E OPS d) None p s = Ok n s' ->
  BinOK OPS (unary_result OPS) p s n s'.

Check C04_sound_from : forall (A G D C E : Type) (OPS : ops A G D C) d x p s n s',
  k_binary A G D C E (parsers_at A G D C E OPS d) (Some x) p s = Ok n s' ->
  BinOKFrom OPS (unary_result OPS) x p s n s'.

Check C04_sound_structure : forall (A G D C E : Type) (OPS : ops A G D C) d p s n s',
  k_binary A G D C E (parsers_at A G D C E OPS d) None p s = Ok n s' ->
  exists t : bexp A C,
    n = to_node t /\ PrecWF t /\ tighter_than p t /\
    (forall pos op, s_cur A G D E s' = Some (pos, TOperator op) -> prec_nat op <= p).

Check C04_sound_flat : forall (A G D C E : Type) (OPS : ops A G D C) d p s n s',
  k_binary A G D C E (parsers_at A G D C E OPS d) None p s = Ok n s' ->
  exists t : bexp A C,
    n = to_node t /\ PrecWF t /\ Trace OPS (unary_result OPS) s (flat t) s'.

Check C04_expr_grouping : forall (A G D C E : Type) (OPS : ops A G D C) d s n s',
  k_expr A G D C E (parsers_at A G D C E OPS d) s = Ok n s' ->
  exists t : bexp A C,
    n = to_node t /\ PrecWF t /\ Trace OPS (unary_result OPS) s (flat t) s' /\
    (forall pos op, s_cur A G D E s' = Some (pos, TOperator op) -> level op = 0) /\
    (forall t' : bexp A C, PrecWF t' -> flat t' = flat t -> t' = t).

Check C04_entry : forall (A G D C E : Type) (OPS : ops A G D C) d s n s',
  entry_expression A G D C E OPS (parsers_at A G D C E OPS d) s = Ok n s' ->
  exists s0, ensure_started A G D C E OPS s = Ok tt s0 /\
             BinOK OPS (unary_result OPS) 0 s0 n s'.

Check C04_unary_operand : forall (A G D C E : Type) (OPS : ops A G D C)
    (self : parsers A G D C E) s n s' pos op,
  s_cur A G D E s = Some (pos, TOperator op) -> classify_unary op <> UCNone ->
  unary_body A G D C E OPS self s = Ok n s' ->
  exists s1 x,
    next A G D C E OPS s = Ok tt s1 /\ k_unary A G D C E self s1 = Ok x s' /\
    match classify_unary op with
    | UCPlain => n = n_operation A C pos op x None
    | UCAnd => n = n_operation A C pos op x None
    | UCArrow =>
        if is_tag GTypeChannel x then reset_chan_arrow A C E pos x = inl n
        else n = n_operation A C pos op x None
    | UCNone => False
    end.

Check C04_unary_binds_tighter : forall (A G D C E : Type) (OPS : ops A G D C)
    d p s n s' pos op,
  k_binary A G D C E (parsers_at A G D C E OPS d) None p s = Ok n s' ->
  s_cur A G D E s = Some (pos, TOperator op) -> classify_unary op = UCPlain ->
  exists (t : bexp A C) x s1 s2 rest,
    n = to_node t /\ PrecWF t /\
    next A G D C E OPS (upd_depth A G D E s (S (s_depth A G D E s))) = Ok tt s1 /\
    unary_result OPS s1 x s2 /\
    flat t = IOperand (n_operation A C pos op x None) :: rest /\
    Trace OPS (unary_result OPS) (upd_depth A G D E s2 (pred (s_depth A G D E s2))) rest s'.

Check C04_paren_content : forall (A G D C E : Type) (OPS : ops A G D C) d s n s' pos,
  s_cur A G D E s = Some (pos, TOperator OParenLeft) ->
  operand A G D C E OPS (parsers_at A G D C E OPS d) s = Ok n s' ->
  exists e p1 (s2 s3 : pstate A G D E),
    n = paren_node pos p1 e /\ BinOK OPS (unary_result OPS) 0 s2 e s3.

Check C04_paren_tree : forall (A C : Type) path p0 p1 (t t' : bexp A C),
  PrecWF t -> PrecWF t' -> flat t' = flat (paren_at path p0 p1 t) ->
  t' = paren_at path p0 p1 t /\ strip_parens (to_node t') = strip_parens (to_node t).

Check C04_parens_redundant : forall (A G D C E : Type) (OPS : ops A G D C) d s n s',
  k_expr A G D C E (parsers_at A G D C E OPS d) s = Ok n s' ->
  exists t' : bexp A C,
    n = to_node t' /\ PrecWF t' /\ Trace OPS (unary_result OPS) s (flat t') s' /\
    forall (t : bexp A C) path p0 p1,
      PrecWF t -> flat t' = flat (paren_at path p0 p1 t) ->
      n = to_node (paren_at path p0 p1 t) /\
      strip_parens n = strip_parens (to_node t).

Check C04_closed : forall (A G D C E : Type) (OPS : ops A G D C) d a d0 elems ae ge,
  expr_stream elems -> length elems + 2 <= d ->
  exists (t : bexp A C) s',
    entry_expression A G D C E OPS (parsers_at A G D C E OPS d)
      (init_state A G D E a d0 elems (TEof ae ge)) = Ok (to_node t) s' /\
    PrecWF t /\ flat t = items_of elems /\
    s_cur A G D E s' = None /\ s_rest A G D E s' = [] /\
    (forall t' : bexp A C, PrecWF t' -> flat t' = items_of elems -> t' = t).
