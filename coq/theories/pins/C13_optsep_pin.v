From Coq Require Import List.
From GoSyn Require Import Token Tok Ast Core.
From GoSyn.spec Require Import Prec Print Print2 Print3.
From GoSyn.proofs Require Import RoundTripBase2 OptionalSep.
From GoSyn.props Require Import C13_optsep.
Import ListNotations.

(* BP_toks is the body of RoundTripBase2.BP with the token list as a parameter *)
Check (fun A G D C E OPS l => eq_refl :
  BP A G D C E OPS l = BP_toks A G D C E OPS l (print_block l)).

Check (eq_refl : BP_toks = fun (A G D C E : Type) (OPS : ops A G D C)
  (l : list stmt2) (toks : list token) =>
  forall d (s : pstate A G D E) rst,
  need_block l <= d -> at_toks s (toks ++ rst) ->
  s_depth A G D E s + depth_block l <= MAX_NESTING -> levw A G D E s (depth_block l) ->
  exists n s1, k_block A G D C E (parsers_at A G D C E OPS d) s = Ok n s1 /\
               erase n = shape_block l /\ at_toks s1 rst /\ frame s s1).

(* the printed spelling has the ";" that the theorem's spelling omits *)
Check (fun body sm => eq_refl :
  print_block (body ++ [StSimple sm]) =
  tk OBraceLeft :: print_stmts (body ++ [StSimple sm]) ++ [tk OBraceRight]).

Check C13_block_last_semicolon : forall (A G D C E : Type) (OPS : ops A G D C) body sm,
  all2 wf_stmt body -> seq_ok body -> wf_stmt (StSimple sm) ->
  BP_toks A G D C E OPS (body ++ [StSimple sm])
    (tk OBraceLeft :: print_stmts body ++ print_simple print2 sm ++ [tk OBraceRight]).

(* nosemi_toks st is print_stmt st without its last ";" *)
Check (eq_refl : nosemi_toks = fun st : stmt2 =>
  match st with
  | StSimple sm => Some (print_simple print2 sm)
  | StGo c => Some (kw KGo :: print2 c)
  | StDefer c => Some (kw KDefer :: print2 c)
  | StReturn es => Some (kw KReturn :: commas (map print2 es))
  | StBranch k lbl => Some (kw k :: popt (fun n => [ident_tok n]) lbl)
  | _ => None
  end).
Check nosemi_toks_print : forall st toks, nosemi_toks st = Some toks ->
  print_stmt st = toks ++ [tk OSemiColon].

Check C13_block_last_stmt_semicolon : forall (A G D C E : Type) (OPS : ops A G D C)
    body last toks,
  all2 wf_stmt body -> seq_ok body -> wf_stmt last -> nosemi_toks last = Some toks ->
  BP_toks A G D C E OPS (body ++ [last])
    (tk OBraceLeft :: print_stmts body ++ toks ++ [tk OBraceRight]).

(* IDP_toks is the statement of RoundTripFile.import_decl_ok with the token list as a parameter *)
Check (eq_refl : IDP_toks = fun (A G D C E : Type) (OPS : ops A G D C)
  (i : bool * list importspec) (toks : list token) =>
  forall (s : pstate A G D E) rst, at_toks s (toks ++ rst) ->
  exists ns s1, parse_import_decl A G D C E OPS s = Ok ns s1 /\
    map erase ns = map shape_importspec (snd i) /\ at_toks s1 (tk OSemiColon :: rst) /\
    frame s s1).
Check IDP_toks_print : forall (A G D C E : Type) (OPS : ops A G D C) i, wf_import i ->
  IDP_toks A G D C E OPS i (print_import i).

Check C13_import_group_last_semicolon : forall (A G D C E : Type) (OPS : ops A G D C)
    specs sp,
  IDP_toks A G D C E OPS (true, specs ++ [sp])
    (kw KImport :: tk OParenLeft ::
       flat_map (fun sp => print_importspec sp ++ [tk OSemiColon]) specs ++
       print_importspec sp ++ [tk OParenRight; tk OSemiColon]).

Check C13_block_last_semicolon_roundtrip : forall (A G D C E : Type) (OPS : ops A G D C)
    body last toks,
  all2 wf_stmt body -> seq_ok body -> wf_stmt last -> nosemi_toks last = Some toks ->
  depth_stmt2 (StBlock (body ++ [last])) <= DEPTH_BOUND2 ->
  forall d a0 d0 (elems : list (selem A G)) ae ge,
    map tok_of elems = tk OBraceLeft :: print_stmts body ++ toks ++ [tk OBraceRight] ->
    need_stmt2 (StBlock (body ++ [last])) <= d ->
    exists n s',
      entry_stmt A G D C E OPS (parsers_at A G D C E OPS d)
        (init_state A G D E a0 d0 elems (TEof ae ge)) = Ok n s' /\
      erase n = shape_stmt (StBlock (body ++ [last])) /\
      s_cur A G D E s' = None /\ s_rest A G D E s' = [].
