From Coq Require Import List NArith.
From GoSyn Require Import Token Tok Ast Core.
From GoSyn.proofs Require Import Lift AccountBase AccountExpr AccountStmt AccountProofs.
From GoSyn.props Require Import C06.
Import ListNotations.
Check C06_accounted :
  forall A G D C E (OPS : ops A G D C) d a0 d0 elems (term : sterm A G E) f s',
  parse_file OPS (parsers_at OPS d) (init_state a0 d0 elems term) = Ok f s' ->
  leaves f = identlits (map pe elems) /\ balanced (map pe elems) /\
  s_cur s' = None /\ s_rest s' = [].
Check C06_accounted_plain :
  forall A G D C E (OPS : ops A G D C) d a0 d0 elems (term : sterm A G E) f s',
  Forall no_dot_ident (map pe elems) ->
  parse_file OPS (parsers_at OPS d) (init_state a0 d0 elems term) = Ok f s' ->
  leaves f = filter is_plain_lit (map pe elems).
Check C06_parse_file :
  forall A G D C E (OPS : ops A G D C) d (s : pstate A G D E) f s' st,
  wf s -> plaincur s -> parse_file OPS (parsers_at OPS d) s = Ok f s' ->
  wf s' /\ exists used, remaining s = used ++ remaining s' /\ leaves f = identlits used /\
                        run st used = Some st.
Check C06_entry_expression :
  forall A G D C E (OPS : ops A G D C) d (s : pstate A G D E) e s' st,
  wf s -> plaincur s -> entry_expression OPS (parsers_at OPS d) s = Ok e s' ->
  wf s' /\ exists used, remaining s = used ++ remaining s' /\ leaves e = identlits used /\
                        run st used = Some st.
Check C06_entry_stmt :
  forall A G D C E (OPS : ops A G D C) d (s : pstate A G D E) e s' st,
  wf s -> plaincur s -> entry_stmt OPS (parsers_at OPS d) s = Ok e s' ->
  wf s' /\ exists used, remaining s = used ++ remaining s' /\ leaves e = identlits used /\
                        run st used = Some st.
Check C06_table :
  forall A G D C E (OPS : ops A G D C) d, GoodA (E:=E) (parsers_at OPS d).
