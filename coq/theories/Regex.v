(* Regular expressions over code points with Brzozowski derivatives.
   The specification side transcribes the Go spec's lexical EBNF into [re]
   (alternation, sequence, option, repetition), so that each lexical class is
   at once a declarative definition ([Matches], inductive) and an executable
   oracle ([matches], proved equivalent below). *)
From Coq Require Import List NArith Bool Lia.
Import ListNotations.
Open Scope N_scope.

Inductive re : Type :=
| Empty                      (* no string *)
| Eps                        (* the empty string *)
| Cls (p : N -> bool)        (* one character satisfying p *)
| Cat (a b : re)
| Alt (a b : re)
| Star (a : re).

Inductive Matches : re -> list N -> Prop :=
| MEps : Matches Eps []
| MCls p c : p c = true -> Matches (Cls p) [c]
| MCat a b s t : Matches a s -> Matches b t -> Matches (Cat a b) (s ++ t)
| MAltL a b s : Matches a s -> Matches (Alt a b) s
| MAltR a b s : Matches b s -> Matches (Alt a b) s
| MStar0 a : Matches (Star a) []
| MStarS a s t : Matches a s -> Matches (Star a) t -> Matches (Star a) (s ++ t).

Fixpoint nullable (r : re) : bool :=
  match r with
  | Empty => false
  | Eps => true
  | Cls _ => false
  | Cat a b => nullable a && nullable b
  | Alt a b => nullable a || nullable b
  | Star _ => true
  end.

(* smart constructors keep derivatives small; they preserve the language *)
Definition cat (a b : re) : re :=
  match a, b with
  | Empty, _ => Empty
  | _, Empty => Empty
  | Eps, _ => b
  | _, Eps => a
  | _, _ => Cat a b
  end.

Definition alt (a b : re) : re :=
  match a, b with
  | Empty, _ => b
  | _, Empty => a
  | _, _ => Alt a b
  end.

Fixpoint deriv (c : N) (r : re) : re :=
  match r with
  | Empty => Empty
  | Eps => Empty
  | Cls p => if p c then Eps else Empty
  | Cat a b =>
      if nullable a then alt (cat (deriv c a) b) (deriv c b)
      else cat (deriv c a) b
  | Alt a b => alt (deriv c a) (deriv c b)
  | Star a => cat (deriv c a) (Star a)
  end.

Fixpoint matches (r : re) (s : list N) : bool :=
  match s with
  | [] => nullable r
  | c :: s' => matches (deriv c r) s'
  end.

(* is the language empty?  (sound and complete; used to stop early) *)
Fixpoint is_empty (r : re) : bool :=
  match r with
  | Empty => true
  | Eps => false
  | Cls _ => false      (* conservative: a class may be empty, then we just scan on *)
  | Cat a b => is_empty a || is_empty b
  | Alt a b => is_empty a && is_empty b
  | Star _ => false
  end.

(* length of the longest prefix of [s] matched by [r] (maximal munch) *)
Fixpoint longest_aux (r : re) (s : list N) (n : nat) (best : option nat) : option nat :=
  let best' := if nullable r then Some n else best in
  match s with
  | [] => best'
  | c :: s' =>
      let r' := deriv c r in
      if is_empty r' then best' else longest_aux r' s' (S n) best'
  end.

Definition longest (r : re) (s : list N) : option nat := longest_aux r s 0 None.

(* ------------------------------------------------------------ derived forms *)
Definition Opt (a : re) : re := Alt a Eps.
Definition Plus (a : re) : re := Cat a (Star a).
Definition Chr (c : N) : re := Cls (N.eqb c).
Definition OneOf (l : list N) : re := Cls (fun c => existsb (N.eqb c) l).
Fixpoint Lit (s : list N) : re :=
  match s with
  | [] => Eps
  | c :: s' => Cat (Chr c) (Lit s')
  end.
Fixpoint Seq (l : list re) : re :=
  match l with
  | [] => Eps
  | [a] => a
  | a :: l' => Cat a (Seq l')
  end.
Fixpoint Any (l : list re) : re :=
  match l with
  | [] => Empty
  | [a] => a
  | a :: l' => Alt a (Any l')
  end.
Fixpoint Rep (n : nat) (a : re) : re :=
  match n with
  | O => Eps
  | S n' => Cat a (Rep n' a)
  end.

(* ------------------------------------------------------------ correctness *)

Lemma empty_inv s : ~ Matches Empty s.
Proof. intro H; inversion H. Qed.
Lemma eps_inv s : Matches Eps s -> s = [].
Proof. intro H; inversion H; reflexivity. Qed.
Lemma cls_inv p s : Matches (Cls p) s -> exists c, s = [c] /\ p c = true.
Proof. intro H; inversion H; subst; eauto. Qed.
Lemma cat_inv a b s :
  Matches (Cat a b) s -> exists s1 s2, s = s1 ++ s2 /\ Matches a s1 /\ Matches b s2.
Proof. intro H; inversion H; subst; eauto. Qed.
Lemma alt_inv a b s : Matches (Alt a b) s -> Matches a s \/ Matches b s.
Proof. intro H; inversion H; subst; auto. Qed.

Lemma nullable_iff r : nullable r = true <-> Matches r [].
Proof.
  induction r as [| |p|a IHa b IHb|a IHa b IHb|a IHa]; simpl.
  - split; [discriminate|]. intro H; inversion H.
  - split; [constructor|reflexivity].
  - split; [discriminate|]. intro H; inversion H.
  - rewrite andb_true_iff, IHa, IHb. split.
    + intros [H1 H2]. change (@nil N) with (@nil N ++ []). constructor; assumption.
    + intro H. apply cat_inv in H as (s1 & s2 & Heq & H1 & H2).
      symmetry in Heq. apply app_eq_nil in Heq as [-> ->]. auto.
  - rewrite orb_true_iff, IHa, IHb. split.
    + intros [H|H]; [apply MAltL|apply MAltR]; assumption.
    + apply alt_inv.
  - split; [constructor|reflexivity].
Qed.

Lemma cat_iff a b s : Matches (cat a b) s <-> Matches (Cat a b) s.
Proof.
  assert (HE1 : forall b, Matches Empty s <-> Matches (Cat Empty b) s).
  { intro b0; split; intro H; [inversion H|].
    apply cat_inv in H as (? & ? & _ & H & _). inversion H. }
  assert (HE2 : forall a, Matches Empty s <-> Matches (Cat a Empty) s).
  { intro a0; split; intro H; [inversion H|].
    apply cat_inv in H as (? & ? & _ & _ & H). inversion H. }
  assert (HP1 : forall b, Matches b s <-> Matches (Cat Eps b) s).
  { intro b0; split; intro H.
    - change s with ([] ++ s). constructor; [constructor|exact H].
    - apply cat_inv in H as (s1 & s2 & -> & H1 & H2). apply eps_inv in H1; subst. exact H2. }
  assert (HP2 : forall a, Matches a s <-> Matches (Cat a Eps) s).
  { intro a0; split; intro H.
    - rewrite <- (app_nil_r s). constructor; [exact H|constructor].
    - apply cat_inv in H as (s1 & s2 & -> & H1 & H2). apply eps_inv in H2; subst.
      rewrite app_nil_r. exact H1. }
  unfold cat. destruct a, b; try tauto; auto.
Qed.

Lemma alt_iff a b s : Matches (alt a b) s <-> Matches (Alt a b) s.
Proof.
  assert (HE1 : forall b, Matches b s <-> Matches (Alt Empty b) s).
  { intro b0; split; intro H; [apply MAltR; exact H|].
    apply alt_inv in H as [H|H]; [inversion H|exact H]. }
  assert (HE2 : forall a, Matches a s <-> Matches (Alt a Empty) s).
  { intro a0; split; intro H; [apply MAltL; exact H|].
    apply alt_inv in H as [H|H]; [exact H|inversion H]. }
  unfold alt. destruct a, b; try tauto; auto.
Qed.

Lemma star_inv_gen r s :
  Matches r s -> forall a c s', r = Star a -> s = c :: s' ->
  exists s1 s2, s' = s1 ++ s2 /\ Matches a (c :: s1) /\ Matches (Star a) s2.
Proof.
  induction 1 as [| | | | | |a0 t1 t2 H1 _ H2 IH2]; intros aa cc ss Hr Hs; try discriminate.
  inversion Hr; subst a0. destruct t1 as [|x t1]; simpl in Hs.
  - eapply IH2; eauto.
  - inversion Hs; subst. eauto.
Qed.

Lemma star_cons_inv a c s :
  Matches (Star a) (c :: s) ->
  exists s1 s2, s = s1 ++ s2 /\ Matches a (c :: s1) /\ Matches (Star a) s2.
Proof. intro H. eapply star_inv_gen; eauto. Qed.

Lemma deriv_iff r : forall c s, Matches (deriv c r) s <-> Matches r (c :: s).
Proof.
  induction r as [| |p|a IHa b IHb|a IHa b IHb|a IHa]; intros c s; simpl.
  - split; intro H; inversion H.
  - split; intro H; inversion H.
  - destruct (p c) eqn:Hp.
    + split; intro H.
      * apply eps_inv in H; subst. constructor; assumption.
      * apply cls_inv in H as (c' & Heq & _). inversion Heq; subst. constructor.
    + split; intro H; [inversion H|].
      apply cls_inv in H as (c' & Heq & Hc). inversion Heq; subst. congruence.
  - assert (Hcat : Matches (cat (deriv c a) b) s <->
                   exists s1 s2, s = s1 ++ s2 /\ Matches a (c :: s1) /\ Matches b s2).
    { rewrite cat_iff. split.
      - intro H. apply cat_inv in H as (s1 & s2 & -> & H1 & H2).
        exists s1, s2. rewrite <- IHa. auto.
      - intros (s1 & s2 & -> & H1 & H2). constructor; [apply IHa|]; assumption. }
    assert (Hsplit : Matches (Cat a b) (c :: s) <->
              (Matches a [] /\ Matches b (c :: s)) \/
              exists s1 s2, s = s1 ++ s2 /\ Matches a (c :: s1) /\ Matches b s2).
    { split.
      - intro H. apply cat_inv in H as (s1 & s2 & Heq & H1 & H2).
        destruct s1 as [|x s1]; simpl in Heq.
        + subst s2. left; auto.
        + inversion Heq; subst. right. exists s1, s2. auto.
      - intros [[H1 H2]|(s1 & s2 & -> & H1 & H2)].
        + change (c :: s) with ([] ++ c :: s). constructor; assumption.
        + change (c :: s1 ++ s2) with ((c :: s1) ++ s2). constructor; assumption. }
    rewrite Hsplit. destruct (nullable a) eqn:Hn.
    + rewrite alt_iff. split.
      * intro H. apply alt_inv in H as [H|H].
        -- right. apply Hcat. exact H.
        -- left. split; [apply nullable_iff; exact Hn|apply IHb; exact H].
      * intros [[H1 H2]|H].
        -- apply MAltR. apply IHb. exact H2.
        -- apply MAltL. apply Hcat. exact H.
    + rewrite Hcat. split.
      * intro H. right. exact H.
      * intros [[H1 H2]|H]; [|exact H]. apply nullable_iff in H1. congruence.
  - rewrite alt_iff. split; intro H.
    + apply alt_inv in H as [H|H]; [apply MAltL; apply IHa|apply MAltR; apply IHb]; assumption.
    + apply alt_inv in H as [H|H]; [apply MAltL; apply IHa|apply MAltR; apply IHb]; assumption.
  - rewrite cat_iff. split; intro H.
    + apply cat_inv in H as (s1 & s2 & -> & H1 & H2).
      change (c :: s1 ++ s2) with ((c :: s1) ++ s2). constructor; [apply IHa|]; assumption.
    + apply star_cons_inv in H as (s1 & s2 & -> & H1 & H2).
      constructor; [apply IHa|]; assumption.
Qed.

Theorem matches_iff r s : matches r s = true <-> Matches r s.
Proof.
  revert r; induction s as [|c s IH]; intro r; simpl.
  - apply nullable_iff.
  - rewrite IH. apply deriv_iff.
Qed.

Lemma is_empty_sound r : is_empty r = true -> forall s, ~ Matches r s.
Proof.
  induction r as [| |p|a IHa b IHb|a IHa b IHb|a IHa]; simpl; intros He s H;
    try discriminate.
  - inversion H.
  - apply orb_true_iff in He. apply cat_inv in H as (s1 & s2 & _ & H1 & H2).
    destruct He as [He|He]; [eapply IHa|eapply IHb]; eauto.
  - apply andb_true_iff in He as [H1 H2]. apply alt_inv in H as [H|H];
      [eapply IHa|eapply IHb]; eauto.
Qed.
