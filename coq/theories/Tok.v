(* Tokens, character classes and small string helpers shared by the scanner
   model and the specification side. *)
From Coq Require Import List NArith Bool Lia.
From GoSyn Require Import Token.
Import ListNotations.
Open Scope N_scope.

(* ---------------------------------------------------------------- tokens *)

Inductive token : Type :=
| TComment (text : str)
| TKeyword (k : keyword)
| TOperator (o : operator)
| TLiteral (k : litkind) (text : str).

Definition tok_text (t : token) : str :=
  match t with
  | TComment s => s
  | TKeyword k => kw_str k
  | TOperator o => op_str o
  | TLiteral _ s => s
  end.

(* ---------------------------------------------------------------- strings *)

Definition lenN {X} (l : list X) : N := N.of_nat (length l).

Fixpoint str_eqb (a b : str) : bool :=
  match a, b with
  | [], [] => true
  | x :: a', y :: b' => (x =? y) && str_eqb a' b'
  | _, _ => false
  end.

Lemma str_eqb_eq a b : str_eqb a b = true <-> a = b.
Proof.
  revert b; induction a as [|x a IH]; intros [|y b]; simpl; split; intro H;
    try congruence; try discriminate.
  - apply andb_true_iff in H as [H1 H2]. apply N.eqb_eq in H1. apply IH in H2. congruence.
  - inversion H; subst. rewrite N.eqb_refl. simpl. apply IH. reflexivity.
Qed.

Lemma str_eqb_refl a : str_eqb a a = true.
Proof. apply str_eqb_eq; reflexivity. Qed.

(* first operator / keyword whose spelling is exactly [s] (Operator::from_str,
   Keyword::from_str of the crate: exact match on the strum table) *)
Definition op_of_str (s : str) : option operator :=
  find (fun o => str_eqb (op_str o) s) all_operators.

Definition kw_of_str (s : str) : option keyword :=
  find (fun k => str_eqb (kw_str k) s) all_keywords.

Definition last_is (c : N) (l : str) : bool :=
  match rev l with
  | x :: _ => x =? c
  | [] => false
  end.

Definition starts_with (p l : str) : bool := str_eqb (firstn (length p) l) p.

Definition contains (c : N) (l : str) : bool := existsb (N.eqb c) l.

(* ---------------------------------------------------------------- characters *)

(* Unicode classification is an oracle: the crate asks unic-ucd-category and
   char::is_whitespace; the model is parametrised by the three predicates.
   gen/Generated.v instantiates them from the crate's behaviour on every code
   point and proves [uclass_ascii_ok] for that instance. *)
Record uclass : Type := {
  u_letter : N -> bool;   (* GeneralCategory::of(c).is_letter() *)
  u_digit : N -> bool;    (* GeneralCategory::of(c) == DecimalNumber *)
  u_ws : N -> bool        (* char::is_whitespace *)
}.

Notation c_nl := 10 (only parsing).
Notation c_cr := 13 (only parsing).
Notation c_space := 32 (only parsing).
Notation c_tab := 9 (only parsing).
Notation c_dquote := 34 (only parsing).
Notation c_squote := 39 (only parsing).
Notation c_star := 42 (only parsing).
Notation c_plus := 43 (only parsing).
Notation c_minus := 45 (only parsing).
Notation c_dot := 46 (only parsing).
Notation c_slash := 47 (only parsing).
Notation c_0 := 48 (only parsing).
Notation c_backslash := 92 (only parsing).
Notation c_under := 95 (only parsing).
Notation c_bquote := 96 (only parsing).

Definition is_decimal_digit (c : N) : bool := (48 <=? c) && (c <=? 57).
Definition is_binary_digit (c : N) : bool := (c =? 48) || (c =? 49).
Definition is_octal_digit (c : N) : bool := (48 <=? c) && (c <=? 55).
Definition is_hex_digit (c : N) : bool :=
  is_decimal_digit c || ((97 <=? c) && (c <=? 102)) || ((65 <=? c) && (c <=? 70)).
(* a b f n r t v backslash squote dquote *)
Definition is_escaped_char (c : N) : bool :=
  existsb (N.eqb c) [97; 98; 102; 110; 114; 116; 118; 92; 39; 34].
Definition is_newline (c : N) : bool := c =? 10.
Definition is_unicode_char (c : N) : bool := negb (is_newline c).

Definition ascii_letter (c : N) : bool :=
  ((97 <=? c) && (c <=? 122)) || ((65 <=? c) && (c <=? 90)).
Definition ascii_ws (c : N) : bool :=
  ((9 <=? c) && (c <=? 13)) || (c =? 32).
(* the four white space characters of the Go specification *)
Definition spec_ws (c : N) : bool :=
  (c =? 32) || (c =? 9) || (c =? 13) || (c =? 10).

Definition uclass_ascii_ok (U : uclass) : Prop :=
  forall c, c < 128 ->
    u_letter U c = ascii_letter c /\
    u_digit U c = is_decimal_digit c /\
    u_ws U c = ascii_ws c.

Definition uclass_ascii_okb (U : uclass) : bool :=
  forallb (fun n => let c := N.of_nat n in
     Bool.eqb (u_letter U c) (ascii_letter c) &&
     Bool.eqb (u_digit U c) (is_decimal_digit c) &&
     Bool.eqb (u_ws U c) (ascii_ws c)) (seq 0 128).

Lemma uclass_ascii_okb_sound U : uclass_ascii_okb U = true -> uclass_ascii_ok U.
Proof.
  unfold uclass_ascii_okb, uclass_ascii_ok. intros H c Hc.
  rewrite forallb_forall in H.
  specialize (H (N.to_nat c)).
  rewrite N2Nat.id in H.
  assert (Hin : In (N.to_nat c) (seq 0 128)) by (apply in_seq; lia).
  specialize (H Hin).
  apply andb_true_iff in H as [H H3]. apply andb_true_iff in H as [H1 H2].
  apply Bool.eqb_prop in H1, H2, H3. auto.
Qed.

(* plain ASCII classification: used for closed examples and as the ASCII part
   of every admissible oracle *)
Definition ascii_uclass : uclass :=
  {| u_letter := ascii_letter; u_digit := is_decimal_digit; u_ws := ascii_ws |}.

Section Classes.
  Variable U : uclass.
  Definition is_letter (c : N) : bool := u_letter U c || (c =? 95).
  Definition is_unicode_digit (c : N) : bool := u_digit U c.
  Definition is_whitespace (c : N) : bool := u_ws U c.
End Classes.

(* ---------------------------------------------------------------- range tables *)

(* membership in an ascending list of inclusive ranges *)
Fixpoint in_ranges (rs : list (N * N)) (c : N) : bool :=
  match rs with
  | [] => false
  | (lo, hi) :: r => if c <? lo then false else if c <=? hi then true else in_ranges r c
  end.

(* the regenerated table [rs] (from the crate's predicate on every code point)
   describes the same set as the model's ASCII predicate [p] *)
Definition ranges_equal_pred (p : N -> bool) (rs : list (N * N)) : bool :=
  forallb (fun r => snd r <? 128) rs &&
  forallb (fun n => let c := N.of_nat n in Bool.eqb (p c) (in_ranges rs c)) (seq 0 128).

Lemma in_ranges_bound rs c :
  forallb (fun r => snd r <? 128) rs = true -> in_ranges rs c = true -> c < 128.
Proof.
  induction rs as [|[lo hi] r IH]; simpl; [discriminate|].
  intros H. apply andb_true_iff in H as [H1 H2]. apply N.ltb_lt in H1.
  destruct (c <? lo) eqn:E1; [discriminate|].
  destruct (c <=? hi) eqn:E2.
  - intros _. apply N.leb_le in E2. lia.
  - auto.
Qed.

Lemma ranges_equal_pred_sound p rs :
  (forall c, p c = true -> c < 128) ->
  ranges_equal_pred p rs = true -> forall c, p c = in_ranges rs c.
Proof.
  intros Hp H c. unfold ranges_equal_pred in H. apply andb_true_iff in H as [H1 H2].
  destruct (N.ltb_spec c 128) as [Hc|Hc].
  - rewrite forallb_forall in H2. specialize (H2 (N.to_nat c)).
    rewrite N2Nat.id in H2. apply Bool.eqb_prop. apply H2. apply in_seq. lia.
  - destruct (p c) eqn:E1; [apply Hp in E1; lia|].
    destruct (in_ranges rs c) eqn:E2; [|reflexivity].
    apply in_ranges_bound in E2; [lia|assumption].
Qed.
