(* C02 / C03 / C14 — the specification side of the round trip, stages B, C, D:
   expressions that contain types and statements, statements, declarations, files.

   [exp2] extends Print.exp by type operands ([]T, [n]T, map[K]V, chan T,
   struct{..}, interface{..}, func(..) as operands of conversions / composite
   literals), function literals, composite literals, type assertions.  It is
   nested through [Print2.typ] (types over exp2: array lengths) and mutual with
   [elemv] (literal values) and [stmt2] (function literal bodies).

   Printing conventions (the renderings the parser reads back as the same
   derivation): no trailing commas; simple statements, go / defer / return /
   branch statements, declarations and if statements are printed with their
   terminating ";"; block, for, switch and select statements are printed
   WITHOUT one (the productions do not take it: a ";" after them is an empty
   statement of its own, [StEmpty]); a labelled statement takes the ";" after
   an unterminated statement (and, after a terminated one, its production
   would take one more ";": see [open_end] / [seq_ok]). *)
From Coq Require Import List Arith NArith Bool.
From GoSyn Require Import Token Tok Ast Core.
From GoSyn.spec Require Import Prec Print Print2.
Import ListNotations.

(* ------------------------------------------------------------ (a) derivations *)

(* SimpleStmt (without labels and range clauses) *)
Inductive simple (E : Type) : Type :=
| SmExpr (e : E)
| SmAssign (op : operator) (lhs rhs : list E)     (* = += ... / := *)
| SmIncDec (op : operator) (e : E)
| SmSend (ch v : E).
Arguments SmExpr {E}. Arguments SmAssign {E}. Arguments SmIncDec {E}. Arguments SmSend {E}.

(* for { / for cond {   |   for init; cond; post { *)
Inductive forhdr (E : Type) : Type :=
| FCond (c : option (simple E))
| FThree (init cond post : option (simple E)).
Arguments FCond {E}. Arguments FThree {E}.

(* CommClause statements:  ch <- v  /  x, ok := <-ch  /  <-ch *)
Inductive comm (E : Type) : Type :=
| CmSend (ch v : E)
| CmRecv (lhs : list E) (op : operator) (rhs : E)
| CmExpr (e : E).
Arguments CmSend {E}. Arguments CmRecv {E}. Arguments CmExpr {E}.

Inductive spec (E T : Type) : Type :=
| SpVar (names : list str) (ty : option T) (vals : list E)
| SpConst (names : list str) (ty : option T) (vals : list E)
| SpType (name : str) (alias : bool) (ty : T)
(* type T[P, Q C1 | ~C2, R C3] ...: a type declaration with type parameters
   (tparams <> []: groups `names constraint`, the constraint a union of terms
   (tilde, type), as for [funcdecl]) *)
| SpTypeG (name : str) (tparams : list (list str * list (bool * T))) (alias : bool) (ty : T).
Arguments SpVar {E T}. Arguments SpConst {E T}. Arguments SpType {E T}. Arguments SpTypeG {E T}.

(* var x T = e ;   /   var ( spec ; spec ; ) ; *)
Inductive decl (E T : Type) : Type :=
| Decl (k : spec_kind) (grouped : bool) (specs : list (spec E T)).
Arguments Decl {E T}.

(* structural size of a type, the sizes of its array lengths included *)
Section SizeX.
Variable X : Type.
Variable f : X -> nat.
Fixpoint sizeX (t : typ X) : nat :=
  match t with
  | TName _ | TQual _ _ => 1
  | TInst b args => S (sizeX b + sumT sizeX args)
  | TPtr t | TSlice t | TArrayDots t | TParen t | TChan _ t => S (sizeX t)
  | TArray x t => S (f x + sizeX t)
  | TMap k v => S (sizeX k + sizeX v)
  | TFunc (Sig ps _ rs) =>
      S (sumT (fun g => sizeX (group_t g)) ps + sumT (fun g => sizeX (group_t g)) rs)
  | TStruct fs => S (sumT (fun f => match f with Field _ t _ => sizeX t end) fs)
  | TInterface es =>
      S (sumT (fun e =>
            match e with
            | IMethod _ (Sig ps _ rs) =>
                S (sumT (fun g => sizeX (group_t g)) ps + sumT (fun g => sizeX (group_t g)) rs)
            | IUnion terms => S (sumT (fun bt : bool * typ X => sizeX (snd bt)) terms)
            end) es)
  end.
End SizeX.
Arguments sizeX {X}.

Inductive exp2 : Type :=
| E2Ident (name : str)
| E2Lit (k : litkind) (text : str)
| E2Paren (e : exp2)
| E2Unary (op : operator) (e : exp2)
| E2Binary (op : operator) (l r : exp2)
| E2Call (f : exp2) (args : list exp2) (ddd : bool)
| E2Selector (e : exp2) (name : str)
| E2Index (e i : exp2)
| E2IndexList (e : exp2) (idx : list exp2)
| E2Slice (e : exp2) (lo hi mx : option exp2)
| E2Type (t : typ exp2)                                     (* a type as operand *)
| E2FuncLit (sg : fsig (typ exp2)) (body : list stmt2)      (* func(..) .. { .. } *)
| E2Composite (ty : exp2) (elems : list (option elemv * elemv))   (* T{k: v, ..} *)
| E2Assert (e : exp2) (t : option (typ exp2))               (* x.(T)   x.(type) *)
with elemv : Type :=
| VExpr (e : exp2)
| VLit (elems : list (option elemv * elemv))                (* {k: v, ..} *)
with stmt2 : Type :=
| StSimple (s : simple exp2)
| StLabel (name : str) (st : stmt2)
| StBlock (body : list stmt2)
| StGo (call : exp2)
| StDefer (call : exp2)
| StReturn (es : list exp2)
| StBranch (k : keyword) (label : option str)
| StEmpty
| StIf (init : option (simple exp2)) (cond : exp2) (body : list stmt2) (els : option stmt2)
| StFor (h : forhdr exp2) (body : list stmt2)
| StRange (lhs : list exp2) (op : operator) (x : exp2) (body : list stmt2)
| StSwitch (init : option (simple exp2)) (tag : option exp2)
           (clauses : list (option (list exp2) * list stmt2))          (* None: default *)
| StTypeSwitch (init : option (simple exp2)) (bind : option str) (x : exp2)
               (clauses : list (option (list (typ exp2)) * list stmt2))
| StSelect (clauses : list (option (comm exp2) * list stmt2))
| StDecl (d : decl exp2 (typ exp2)).

Notation typ2 := (typ exp2).
Notation sig2 := (fsig (typ exp2)).
Notation simple2 := (simple exp2).
Notation decl2 := (decl exp2 (typ exp2)).
Notation spec2 := (spec exp2 (typ exp2)).
Notation elems2 := (list (option elemv * elemv)).

(* ------------------------------------------------------------ generic pieces (over E, T) *)

Section Pieces.
Variables E T : Type.
Variable pe : E -> list token.
Variable pt : T -> list token.

Definition print_simple (s : simple E) : list token :=
  match s with
  | SmExpr e => pe e
  | SmAssign op l r => commas (map pe l) ++ tk op :: commas (map pe r)
  | SmIncDec op e => pe e ++ [tk op]
  | SmSend ch v => pe ch ++ tk OArrow :: pe v
  end.

Definition print_osimple (o : option (simple E)) : list token :=
  match o with Some s => print_simple s | None => [] end.

Definition print_forhdr (h : forhdr E) : list token :=
  match h with
  | FCond c => print_osimple c
  | FThree i c p =>
      print_osimple i ++ tk OSemiColon :: print_osimple c ++ tk OSemiColon :: print_osimple p
  end.

Definition print_comm (c : comm E) : list token :=
  match c with
  | CmSend ch v => pe ch ++ tk OArrow :: pe v
  | CmRecv l op r => commas (map pe l) ++ tk op :: pe r
  | CmExpr e => pe e
  end.

Definition print_spec (sp : spec E T) : list token :=
  match sp with
  | SpVar names ty vals | SpConst names ty vals =>
      printNames names ++ match ty with Some t => pt t | None => [] end ++
      match vals with [] => [] | _ => tk OAssign :: commas (map pe vals) end
  | SpType name alias ty => ident_tok name :: (if alias then [tk OAssign] else []) ++ pt ty
  | SpTypeG name tps alias ty =>
      ident_tok name :: tk OBarackLeft ::
      commas (map (fun g : list str * list (bool * T) =>
                     printNames (fst g) ++
                     bars (map (fun bt : bool * T =>
                                  (if fst bt then [tk OTiled] else []) ++ pt (snd bt)) (snd g))) tps) ++
      tk OBarackRight :: (if alias then [tk OAssign] else []) ++ pt ty
  end.

Definition kind_kw (k : spec_kind) : keyword :=
  match k with SKVar => KVar | SKConst => KConst | SKType => KType end.

Definition print_decl (d : decl E T) : list token :=
  match d with
  | Decl k true specs =>
      kw (kind_kw k) :: tk OParenLeft ::
      flat_map (fun sp => print_spec sp ++ [tk OSemiColon]) specs ++ [tk OParenRight; tk OSemiColon]
  | Decl k false specs =>
      kw (kind_kw k) :: flat_map (fun sp => print_spec sp ++ [tk OSemiColon]) specs
  end.

Variable se : E -> shapeT.
Variable st : T -> shapeT.

Definition shape_simple (s : simple E) : shapeT :=
  match s with
  | SmExpr e => mk unit unit GExprStmt [] [] [se e]
  | SmAssign op l r => mk unit unit GAssign [tt] [AOp op] [nlist (map se l); nlist (map se r)]
  | SmIncDec op e => mk unit unit GIncDec [tt] [AOp op] [se e]
  | SmSend ch v => mk unit unit GSend [tt] [] [se ch; se v]
  end.
Definition shape_osimple (o : option (simple E)) : shapeT :=
  match o with Some s => shape_simple s | None => nnone end.

Definition shape_comm (c : comm E) : shapeT :=
  match c with
  | CmSend ch v => mk unit unit GSend [tt] [] [se ch; se v]
  | CmRecv l op r => mk unit unit GAssign [tt] [AOp op] [nlist (map se l); nlist [se r]]
  | CmExpr e => mk unit unit GExprStmt [] [] [se e]
  end.

Definition shape_spec (sp : spec E T) : shapeT :=
  match sp with
  | SpVar names ty vals =>
      mkd unit unit GVarSpec [] [] tt
        [nlist (map sh_ident names); match ty with Some t => st t | None => nnone end;
         nlist (map se vals)]
  | SpConst names ty vals =>
      mkd unit unit GConstSpec [] [] tt
        [nlist (map sh_ident names); match ty with Some t => st t | None => nnone end;
         nlist (map se vals)]
  | SpType name alias ty =>
      mkd unit unit GTypeSpec [] [ABool alias] tt [sh_ident name; sh_fieldlist false []; st ty]
  | SpTypeG name tps alias ty =>
      mkd unit unit GTypeSpec [] [ABool alias] tt
        [sh_ident name;
         sh_fieldlist true
           (map (fun g : list str * list (bool * T) =>
                   sh_field (fst g)
                     (sh_union (map (fun bt : bool * T =>
                                       if fst bt then n_operation unit unit tt OTiled (st (snd bt)) None
                                       else st (snd bt)) (snd g))) None) tps);
         st ty]
  end.

Definition shape_decl (d : decl E T) : shapeT :=
  match d with
  | Decl k true specs => mkd unit unit (decl_tag k) [tt; tt; tt] [] tt (map shape_spec specs)
  | Decl k false specs => mkd unit unit (decl_tag k) [tt] [] tt (map shape_spec specs)
  end.

Definition exprs_simple (s : simple E) : list E :=
  match s with
  | SmExpr e | SmIncDec _ e => [e]
  | SmAssign _ l r => l ++ r
  | SmSend ch v => [ch; v]
  end.
Definition exprs_osimple (o : option (simple E)) : list E :=
  match o with Some s => exprs_simple s | None => [] end.
Definition exprs_forhdr (h : forhdr E) : list E :=
  match h with
  | FCond c => exprs_osimple c
  | FThree i c p => exprs_osimple i ++ exprs_osimple c ++ exprs_osimple p
  end.
Definition exprs_comm (c : comm E) : list E :=
  match c with
  | CmSend ch v => [ch; v]
  | CmRecv l _ r => l ++ [r]
  | CmExpr e => [e]
  end.
Definition exprs_spec (sp : spec E T) : list E :=
  match sp with
  | SpVar _ _ vals | SpConst _ _ vals => vals
  | SpType _ _ _ | SpTypeG _ _ _ _ => []
  end.
Definition types_spec (sp : spec E T) : list T :=
  match sp with
  | SpVar _ ty _ | SpConst _ ty _ => match ty with Some t => [t] | None => [] end
  | SpType _ _ t => [t]
  | SpTypeG _ tps _ t =>
      flat_map (fun g : list str * list (bool * T) => map (fun bt : bool * T => snd bt) (snd g)) tps ++ [t]
  end.
Definition specs_of (d : decl E T) : list (spec E T) := match d with Decl _ _ l => l end.

(* the last expression of a simple statement (what stands in front of the "{" of a header) *)
Definition last_simple (s : simple E) : option E :=
  match s with
  | SmExpr e | SmSend _ e => Some e
  | SmAssign _ _ r => last (map Some r) None
  | SmIncDec _ _ => None
  end.

(* folding a measure over the expressions of a piece ([c]: max or +) *)
Variable c : nat -> nat -> nat.
Variable f : E -> nat.
Definition foldl (l : list E) : nat := fold_right (fun a m => c (f a) m) 0 l.
Definition m_simple (s : simple E) : nat :=
  match s with
  | SmExpr e | SmIncDec _ e => f e
  | SmAssign _ l r => c (foldl l) (foldl r)
  | SmSend ch v => c (f ch) (f v)
  end.
Definition m_osimple (o : option (simple E)) : nat :=
  match o with Some s => m_simple s | None => 0 end.
Definition m_forhdr (h : forhdr E) : nat :=
  match h with
  | FCond x => m_osimple x
  | FThree i x p => c (m_osimple i) (c (m_osimple x) (m_osimple p))
  end.
Definition m_comm (x : comm E) : nat :=
  match x with
  | CmSend ch v => c (f ch) (f v)
  | CmRecv l _ r => c (foldl l) (f r)
  | CmExpr e => f e
  end.

End Pieces.
Arguments print_simple {E}. Arguments print_osimple {E}. Arguments print_forhdr {E}.
Arguments print_comm {E}. Arguments print_spec {E T}. Arguments print_decl {E T}.
Arguments shape_simple {E}. Arguments shape_osimple {E}. Arguments shape_comm {E}.
Arguments shape_spec {E T}. Arguments shape_decl {E T}.
Arguments exprs_simple {E}. Arguments exprs_osimple {E}. Arguments exprs_forhdr {E}.
Arguments exprs_comm {E}. Arguments exprs_spec {E T}. Arguments types_spec {E T}.
Arguments specs_of {E T}. Arguments last_simple {E}.
Arguments m_simple {E}. Arguments m_osimple {E}. Arguments m_forhdr {E}. Arguments m_comm {E}.

(* ------------------------------------------------------------ (b) printing *)

Definition popt {Y} (f : Y -> list token) (o : option Y) : list token :=
  match o with Some x => f x | None => [] end.

(* whether the printing of a statement ends with a ";" its production takes *)
Definition terminated (st : stmt2) : bool :=
  match st with
  | StBlock _ | StFor _ _ | StRange _ _ _ _ | StSwitch _ _ _ | StTypeSwitch _ _ _ _
  | StSelect _ => false
  | _ => true
  end.

Fixpoint print2 (e : exp2) : list token :=
  match e with
  | E2Ident name => [TLiteral LIdent name]
  | E2Lit k text => [TLiteral k text]
  | E2Paren e => tk OParenLeft :: print2 e ++ [tk OParenRight]
  | E2Unary op e => tk op :: print2 e
  | E2Binary op l r => print2 l ++ tk op :: print2 r
  | E2Call f args ddd =>
      print2 f ++ tk OParenLeft :: commas (map print2 args) ++
        (if ddd then [tk ODotDotDot] else []) ++ [tk OParenRight]
  | E2Selector e name => print2 e ++ [tk ODot; TLiteral LIdent name]
  | E2Index e i => print2 e ++ tk OBarackLeft :: print2 i ++ [tk OBarackRight]
  | E2IndexList e idx => print2 e ++ tk OBarackLeft :: commas (map print2 idx) ++ [tk OBarackRight]
  | E2Slice e lo hi mx =>
      print2 e ++ tk OBarackLeft ::
        popt print2 lo ++ tk OColon :: popt print2 hi ++
        match mx with Some x => tk OColon :: print2 x | None => [] end ++ [tk OBarackRight]
  | E2Type t => printT print2 t
  | E2FuncLit sg body =>
      kw KFunc :: printSig print2 sg ++ tk OBraceLeft :: flat_map print_stmt body ++ [tk OBraceRight]
  | E2Composite ty elems =>
      print2 ty ++ tk OBraceLeft ::
      commas (map (fun kv : option elemv * elemv =>
                     match fst kv with Some k => print_elemv k ++ [tk OColon] | None => [] end ++
                     print_elemv (snd kv)) elems) ++ [tk OBraceRight]
  | E2Assert e t =>
      print2 e ++ tk ODot :: tk OParenLeft ::
      match t with Some t => printT print2 t | None => [kw KType] end ++ [tk OParenRight]
  end
with print_elemv (v : elemv) : list token :=
  match v with
  | VExpr e => print2 e
  | VLit elems =>
      tk OBraceLeft ::
      commas (map (fun kv : option elemv * elemv =>
                     match fst kv with Some k => print_elemv k ++ [tk OColon] | None => [] end ++
                     print_elemv (snd kv)) elems) ++ [tk OBraceRight]
  end
with print_stmt (st : stmt2) : list token :=
  match st with
  | StSimple s => print_simple print2 s ++ [tk OSemiColon]
  | StLabel name st =>
      ident_tok name :: tk OColon :: print_stmt st ++ (if terminated st then [] else [tk OSemiColon])
  | StBlock body => tk OBraceLeft :: flat_map print_stmt body ++ [tk OBraceRight]
  | StGo c => kw KGo :: print2 c ++ [tk OSemiColon]
  | StDefer c => kw KDefer :: print2 c ++ [tk OSemiColon]
  | StReturn es => kw KReturn :: commas (map print2 es) ++ [tk OSemiColon]
  | StBranch k lbl => kw k :: popt (fun n => [ident_tok n]) lbl ++ [tk OSemiColon]
  | StEmpty => [tk OSemiColon]
  | StIf init cond body els =>
      kw KIf :: match init with Some i => print_simple print2 i ++ [tk OSemiColon] | None => [] end ++
      print2 cond ++ tk OBraceLeft :: flat_map print_stmt body ++ tk OBraceRight ::
      match els with
      | None => [tk OSemiColon]
      | Some (StBlock b) =>
          kw KElse :: tk OBraceLeft :: flat_map print_stmt b ++ [tk OBraceRight; tk OSemiColon]
      | Some st => kw KElse :: print_stmt st
      end
  | StFor h body =>
      kw KFor :: print_forhdr print2 h ++ tk OBraceLeft :: flat_map print_stmt body ++ [tk OBraceRight]
  | StRange lhs op x body =>
      kw KFor :: match lhs with [] => [] | _ => commas (map print2 lhs) ++ [tk op] end ++
      kw KRange :: print2 x ++ tk OBraceLeft :: flat_map print_stmt body ++ [tk OBraceRight]
  | StSwitch init tag clauses =>
      kw KSwitch :: match init with Some i => print_simple print2 i ++ [tk OSemiColon] | None => [] end ++
      popt print2 tag ++ tk OBraceLeft ::
      flat_map (fun cl : option (list exp2) * list stmt2 =>
                  match fst cl with
                  | Some es => kw KCase :: commas (map print2 es)
                  | None => [kw KDefault]
                  end ++ tk OColon :: flat_map print_stmt (snd cl)) clauses ++ [tk OBraceRight]
  | StTypeSwitch init bind x clauses =>
      kw KSwitch :: match init with Some i => print_simple print2 i ++ [tk OSemiColon] | None => [] end ++
      match bind with Some v => [ident_tok v; tk ODefine] | None => [] end ++
      print2 x ++ tk ODot :: tk OParenLeft :: kw KType :: tk OParenRight :: tk OBraceLeft ::
      flat_map (fun cl : option (list typ2) * list stmt2 =>
                  match fst cl with
                  | Some ts => kw KCase :: commas (map (printT print2) ts)
                  | None => [kw KDefault]
                  end ++ tk OColon :: flat_map print_stmt (snd cl)) clauses ++ [tk OBraceRight]
  | StSelect clauses =>
      kw KSelect :: tk OBraceLeft ::
      flat_map (fun cl : option (comm exp2) * list stmt2 =>
                  match fst cl with
                  | Some c => kw KCase :: print_comm print2 c
                  | None => [kw KDefault]
                  end ++ tk OColon :: flat_map print_stmt (snd cl)) clauses ++ [tk OBraceRight]
  | StDecl d => print_decl print2 (printT print2) d
  end.

Definition print_stmts (l : list stmt2) : list token := flat_map print_stmt l.
Definition print_block (l : list stmt2) : list token :=
  tk OBraceLeft :: print_stmts l ++ [tk OBraceRight].
Definition print_elem (kv : option elemv * elemv) : list token :=
  match fst kv with Some k => print_elemv k ++ [tk OColon] | None => [] end ++ print_elemv (snd kv).
Definition print_elems (l : elems2) : list token :=
  tk OBraceLeft :: commas (map print_elem l) ++ [tk OBraceRight].
Definition print_else (els : option stmt2) : list token :=
  match els with
  | None => [tk OSemiColon]
  | Some (StBlock b) => kw KElse :: print_block b ++ [tk OSemiColon]
  | Some st => kw KElse :: print_stmt st
  end.
Definition print_init (init : option simple2) : list token :=
  match init with Some i => print_simple print2 i ++ [tk OSemiColon] | None => [] end.
Definition print_case (cl : option (list exp2) * list stmt2) : list token :=
  match fst cl with Some es => kw KCase :: commas (map print2 es) | None => [kw KDefault] end ++
  tk OColon :: print_stmts (snd cl).
Definition print_tcase (cl : option (list typ2) * list stmt2) : list token :=
  match fst cl with
  | Some ts => kw KCase :: commas (map (printT print2) ts)
  | None => [kw KDefault]
  end ++ tk OColon :: print_stmts (snd cl).
Definition print_ccase (cl : option (comm exp2) * list stmt2) : list token :=
  match fst cl with Some c => kw KCase :: print_comm print2 c | None => [kw KDefault] end ++
  tk OColon :: print_stmts (snd cl).

(* ------------------------------------------------------------ (c) the tree *)

Definition sopt {Y} (f : Y -> shapeT) (o : option Y) : shapeT :=
  match o with Some x => f x | None => nnone end.

Fixpoint shape2 (e : exp2) : shapeT :=
  match e with
  | E2Ident name => n_ident unit unit tt name
  | E2Lit k text => n_basic unit unit tt k text
  | E2Paren e => mk unit unit GParen [tt; tt] [] [shape2 e]
  | E2Unary op e => n_operation unit unit tt op (shape2 e) None
  | E2Binary op l r => n_operation unit unit tt op (shape2 l) (Some (shape2 r))
  | E2Call f args ddd =>
      mk unit unit GCall [tt; tt] []
        [shape2 f; nlist (map shape2 args); if ddd then npos tt else nnone]
  | E2Selector e name => mk unit unit GSelector [tt] [] [shape2 e; n_ident unit unit tt name]
  | E2Index e i => mk unit unit GIndex [tt; tt] [] [shape2 e; shape2 i]
  | E2IndexList e idx => mk unit unit GIndexList [tt; tt] [] [shape2 e; nlist (map shape2 idx)]
  | E2Slice e lo hi mx =>
      mk unit unit GSlice [tt; tt] [] [shape2 e; sopt shape2 lo; sopt shape2 hi; sopt shape2 mx]
  | E2Type t => shapeTy shape2 t
  | E2FuncLit sg body =>
      mk unit unit GFuncLit [] []
        [shapeSig shape2 true sg; mk unit unit GBlock [tt; tt] [] (map shape_stmt body)]
  | E2Composite ty elems =>
      mk unit unit GCompositeLit [] []
        [shape2 ty;
         mk unit unit GLiteralValue [tt; tt] []
           (map (fun kv : option elemv * elemv =>
                   mk unit unit GKeyedElement [] []
                     [match fst kv with Some k => shape_elemv k | None => nnone end;
                      shape_elemv (snd kv)]) elems)]
  | E2Assert e t =>
      mk unit unit GTypeAssert [tt; tt] []
        [shape2 e; match t with Some t => shapeTy shape2 t | None => nnone end]
  end
with shape_elemv (v : elemv) : shapeT :=
  match v with
  | VExpr e => shape2 e
  | VLit elems =>
      mk unit unit GLiteralValue [tt; tt] []
        (map (fun kv : option elemv * elemv =>
                mk unit unit GKeyedElement [] []
                  [match fst kv with Some k => shape_elemv k | None => nnone end;
                   shape_elemv (snd kv)]) elems)
  end
with shape_stmt (st : stmt2) : shapeT :=
  match st with
  | StSimple s => shape_simple shape2 s
  | StLabel name st => mk unit unit GLabel [tt] [] [n_ident unit unit tt name; shape_stmt st]
  | StBlock body => mk unit unit GBlock [tt; tt] [] (map shape_stmt body)
  | StGo c => mk unit unit GGo [tt] [] [shape2 c]
  | StDefer c => mk unit unit GDefer [tt] [] [shape2 c]
  | StReturn es => mk unit unit GReturn [tt] [] (map shape2 es)
  | StBranch k lbl =>
      mk unit unit GBranch [tt] [AKw k]
        [match lbl with Some n => n_ident unit unit tt n | None => nnone end]
  | StEmpty => mk unit unit GEmpty [tt] [] []
  | StIf init cond body els =>
      mk unit unit GIf [tt] []
        [shape_osimple shape2 init; shape2 cond;
         mk unit unit GBlock [tt; tt] [] (map shape_stmt body);
         match els with Some st => shape_stmt st | None => nnone end]
  | StFor h body =>
      mk unit unit GFor [tt] []
        (match h with
         | FCond c => [nnone; shape_osimple shape2 c; nnone]
         | FThree i c p => [shape_osimple shape2 i; shape_osimple shape2 c; shape_osimple shape2 p]
         end ++ [mk unit unit GBlock [tt; tt] [] (map shape_stmt body)])
  | StRange lhs op x body =>
      mk unit unit GRangeStmt [tt; tt] []
        [match lhs with k :: _ => shape2 k | [] => nnone end;
         match lhs with _ :: v :: _ => shape2 v | _ => nnone end;
         match lhs with [] => nnone | _ => Nd GPos [tt] [AOp op] [] [] end;
         shape2 x; mk unit unit GBlock [tt; tt] [] (map shape_stmt body)]
  | StSwitch init tag clauses =>
      mk unit unit GSwitch [tt] []
        [shape_osimple shape2 init; sopt shape2 tag;
         mk unit unit GCaseBlock [tt; tt] []
           (map (fun cl : option (list exp2) * list stmt2 =>
                   mk unit unit GCaseClause [tt; tt]
                     [AKw (match fst cl with Some _ => KCase | None => KDefault end)]
                     [nlist (match fst cl with Some es => map shape2 es | None => [] end);
                      nlist (map shape_stmt (snd cl))]) clauses)]
  | StTypeSwitch init bind x clauses =>
      mk unit unit GTypeSwitch [tt] []
        [shape_osimple shape2 init;
         (let guard := mk unit unit GTypeAssert [tt; tt] [] [shape2 x; nnone] in
          match bind with
          | Some v =>
              mk unit unit GAssign [tt] [AOp ODefine]
                [nlist [n_ident unit unit tt v]; nlist [guard]]
          | None => mk unit unit GExprStmt [] [] [guard]
          end);
         mk unit unit GCaseBlock [tt; tt] []
           (map (fun cl : option (list typ2) * list stmt2 =>
                   mk unit unit GCaseClause [tt; tt]
                     [AKw (match fst cl with Some _ => KCase | None => KDefault end)]
                     [nlist (match fst cl with Some ts => map (shapeTy shape2) ts | None => [] end);
                      nlist (map shape_stmt (snd cl))]) clauses)]
  | StSelect clauses =>
      mk unit unit GSelect [tt] []
        [mk unit unit GCommBlock [tt; tt] []
           (map (fun cl : option (comm exp2) * list stmt2 =>
                   mk unit unit GCommClause [tt; tt]
                     [AKw (match fst cl with Some _ => KCase | None => KDefault end)]
                     [match fst cl with Some c => shape_comm shape2 c | None => nnone end;
                      nlist (map shape_stmt (snd cl))]) clauses)]
  | StDecl d => mk unit unit GDeclStmt [] [] [shape_decl shape2 (shapeTy shape2) d]
  end.

Definition shape_block (l : list stmt2) : shapeT :=
  mk unit unit GBlock [tt; tt] [] (map shape_stmt l).
Definition shape_elem (kv : option elemv * elemv) : shapeT :=
  mk unit unit GKeyedElement [] []
    [match fst kv with Some k => shape_elemv k | None => nnone end; shape_elemv (snd kv)].
Definition shape_elems (l : elems2) : shapeT :=
  mk unit unit GLiteralValue [tt; tt] [] (map shape_elem l).
Definition shape_case (cl : option (list exp2) * list stmt2) : shapeT :=
  mk unit unit GCaseClause [tt; tt]
    [AKw (match fst cl with Some _ => KCase | None => KDefault end)]
    [nlist (match fst cl with Some es => map shape2 es | None => [] end);
     nlist (map shape_stmt (snd cl))].
Definition shape_tcase (cl : option (list typ2) * list stmt2) : shapeT :=
  mk unit unit GCaseClause [tt; tt]
    [AKw (match fst cl with Some _ => KCase | None => KDefault end)]
    [nlist (match fst cl with Some ts => map (shapeTy shape2) ts | None => [] end);
     nlist (map shape_stmt (snd cl))].
Definition shape_ccase (cl : option (comm exp2) * list stmt2) : shapeT :=
  mk unit unit GCommClause [tt; tt]
    [AKw (match fst cl with Some _ => KCase | None => KDefault end)]
    [match fst cl with Some c => shape_comm shape2 c | None => nnone end;
     nlist (map shape_stmt (snd cl))].
(* the tag statement of a type switch:  x.(type)   /   v := x.(type) *)
Definition shape_guard (bind : option str) (x : exp2) : shapeT :=
  let guard := mk unit unit GTypeAssert [tt; tt] [] [shape2 x; nnone] in
  match bind with
  | Some v => mk unit unit GAssign [tt] [AOp ODefine] [nlist [n_ident unit unit tt v]; nlist [guard]]
  | None => mk unit unit GExprStmt [] [] [guard]
  end.

(* ------------------------------------------------------------ (d) well-formedness *)

Definition primary2 (e : exp2) : Prop :=
  match e with E2Unary _ _ | E2Binary _ _ _ => False | _ => True end.
Definition unary_level2 (e : exp2) : Prop :=
  match e with E2Binary _ _ _ => False | _ => True end.
Definition at_least2 (p : nat) (e : exp2) : Prop :=
  match e with E2Binary op _ _ => p <= level op | _ => True end.
Definition tighter_than2 (p : nat) (e : exp2) : Prop :=
  match e with E2Binary op _ _ => p < level op | _ => True end.
Definition is_ident2 (e : exp2) : Prop := match e with E2Ident _ => True | _ => False end.
Definition is_call2 (e : exp2) : Prop := match e with E2Call _ _ _ => True | _ => False end.

(* types that are operands of expressions: they start with "[", chan, map,
   struct, interface or func *)
Definition operand_type (t : typ2) : Prop :=
  match t with
  | TSlice _ | TArray _ _ | TArrayDots _ | TMap _ _ | TStruct _ | TInterface _ | TFunc _ => True
  | TChan d _ => d <> CRecv
  | _ => False
  end.
(* the types of composite literals that need no expression level: struct, map, array, slice *)
Definition literal_type (t : typ2) : Prop :=
  match t with
  | TSlice _ | TArray _ _ | TArrayDots _ | TMap _ _ | TStruct _ => True
  | _ => False
  end.

(* how an expression stands in front of a "{":
     BAlways: the "{" opens a composite literal (or a function body) whatever the context;
     BLevel: it does when expr_level >= 0, i.e. not directly in an if/for/switch header;
     BNever: it never does *)
Inductive bclass : Set := BAlways | BLevel | BNever.
Fixpoint last_class (e : exp2) : bclass :=
  match e with
  | E2Ident _ | E2Selector _ _ | E2Index _ _ | E2IndexList _ _ => BLevel
  | E2Unary _ e => last_class e
  | E2Binary _ _ r => last_class r
  | E2Type t =>
      match t with
      | TSlice _ | TArray _ _ | TArrayDots _ | TMap _ _ | TStruct _ | TFunc _ => BAlways
      | _ => BNever
      end
  | _ => BNever
  end.
(* the expression may be followed by the "{" of a block *)
Definition brace_stop (hdr : bool) (e : exp2) : Prop :=
  match last_class e with BAlways => False | BLevel => hdr = true | BNever => True end.

(* a type operand as the base of a postfix operation: the type must be over
   where the operation starts *)
Definition base_call (e : exp2) : Prop :=
  match e with E2Type t => tail t <> KFuncNoResult | _ => True end.
Definition base_dot (e : exp2) : Prop :=      (* x.f  x.(T)  x[i]  x[i:j] *)
  match e with E2Type t => tail t = KClosed | _ => True end.

Definition all2 {Y} (P : Y -> Prop) (l : list Y) : Prop :=
  fold_right (fun a acc => P a /\ acc) True l.
Definition opt2 {Y} (P : Y -> Prop) (o : option Y) : Prop :=
  match o with Some x => P x | None => True end.

(* A labelled statement goes through the simple-statement path of the crate:
   after `L :` and the inner statement the production takes one ";" if there is
   one.  When the inner statement already took its own ";" ([terminated]), the
   label's production therefore swallows a ";" that FOLLOWS it: the statement is
   open-ended, and must not be followed by an empty statement (the only
   statement whose printing starts with ";"). *)
Definition open_end (st : stmt2) : bool :=
  match st with StLabel _ st' => terminated st' | _ => false end.
Definition is_empty_stmt (st : stmt2) : bool :=
  match st with StEmpty => true | _ => false end.
Fixpoint seq_ok (l : list stmt2) : Prop :=
  match l with
  | st :: r =>
      match r with
      | nxt :: _ => open_end st = true -> is_empty_stmt nxt = false
      | [] => True
      end /\ seq_ok r
  | [] => True
  end.

Definition branch_kw (k : keyword) : Prop :=
  k = KBreak \/ k = KContinue \/ k = KGoto \/ k = KFallThrough.

(* the last operand of an expression *)
Fixpoint last_prim (e : exp2) : exp2 :=
  match e with
  | E2Unary _ e => last_prim e
  | E2Binary _ _ r => last_prim r
  | _ => e
  end.
Definition no_type_end (e : exp2) : Prop :=
  match last_prim e with E2Type _ => False | _ => True end.

Section WfPieces.
Variable E : Type.
Variable wfe : bool -> E -> Prop.       (* hdr -> expression -> wf *)
Variable is_id : E -> Prop.
Variable stop : E -> Prop.              (* brace_stop true *)
Variable nty : E -> Prop.               (* does not end in a type operand *)

Definition wf_simple (hdr : bool) (s : simple E) : Prop :=
  match s with
  | SmExpr e => wfe hdr e
  | SmAssign op l r =>
      is_assign_op op = true /\ l <> [] /\ r <> [] /\ length r <= length l /\
      all2 (wfe hdr) l /\ all2 (wfe hdr) r /\ (op = ODefine -> all2 is_id l)
  | SmIncDec op e => (op = OInc \/ op = ODec) /\ wfe hdr e
  | SmSend ch v => nty ch /\ wfe hdr ch /\ wfe hdr v
  end.
(* the statement may be followed by the "{" of the block *)
Definition simple_stop (s : simple E) : Prop :=
  match last_simple s with Some e => stop e | None => True end.

Definition wf_comm (c : comm E) : Prop :=
  match c with
  | CmSend ch v => nty ch /\ wfe false ch /\ wfe false v
  | CmRecv l op r =>
      (op = OAssign \/ op = ODefine) /\ 1 <= length l <= 2 /\ all2 (wfe false) l /\
      wfe false r /\ (op = ODefine -> all2 is_id l)
  | CmExpr e => wfe false e
  end.
End WfPieces.
Arguments wf_simple {E}. Arguments simple_stop {E}. Arguments wf_comm {E}.

(* `type A [n]T`: the crate tells an array length from type parameters by trial
   parsing; the lengths covered are a single identifier, or an expression that
   does not start with an identifier *)
Definition starts_with_ident (l : list token) : Prop :=
  match l with TLiteral LIdent _ :: _ => True | _ => False end.

(* `type A[P, Q C1 | ~C2, R C3] T` ([SpTypeG]): after `A [ P` the crate parses an
   expression on trial and decides from its tree whether this is an array
   length or a type parameter list.  Covered: the token after the first
   parameter name is "," or the first token of the first constraint, which is an
   identifier, one of interface / map / chan / struct / func, "~" or "<-" (the
   first term of the first group is a type name, an instantiation, an
   interface / map / chan / struct / func type, or has a tilde) — the trial
   stops there.  (`P *C`, `P (C)` are read as array lengths, as the Go
   specification says; `P []C` is rejected by the crate.)  The groups are then
   read by the parameter-list production with "]" as closing token: a constraint
   that starts with "[" is ONE slice or array type (no union, no `[...]T`). *)

Fixpoint wf2 (hdr : bool) (e : exp2) {struct e} : Prop :=
  match e with
  | E2Ident _ => True
  | E2Lit k _ => k <> LIdent
  | E2Paren e => wf2 false e
  | E2Unary op e =>
      unary_op op /\ unary_level2 e /\ wf2 hdr e /\
      (op = OArrow -> match e with E2Type (TChan _ _) => False | _ => True end)
  | E2Binary op l r =>
      is_binary_op op /\ at_least2 (level op) l /\ tighter_than2 (level op) r /\
      wf2 hdr l /\ wf2 hdr r /\
      (* `func() * x` reads `*x` as the result type *)
      (op = OStar -> match last_prim l with E2Type ty => tail ty <> KFuncNoResult | _ => True end)
  | E2Call f args ddd =>
      primary2 f /\ base_call f /\ wf2 hdr f /\ all2 (wf2 false) args /\ (ddd = true -> args <> [])
  | E2Selector e _ => primary2 e /\ base_dot e /\ wf2 hdr e
  | E2Index e i => primary2 e /\ base_dot e /\ wf2 hdr e /\ wf2 false i
  | E2IndexList e idx =>
      primary2 e /\ base_dot e /\ wf2 hdr e /\ all2 (wf2 false) idx /\ 2 <= length idx
  | E2Slice e lo hi mx =>
      primary2 e /\ base_dot e /\ wf2 hdr e /\ opt2 (wf2 false) lo /\ opt2 (wf2 false) hi /\
      opt2 (wf2 false) mx /\ (mx <> None -> hi <> None)
  | E2Type t => operand_type t /\ wfT (wf2 false) t
  | E2FuncLit sg body => wfSig (wf2 false) sg /\ all2 wf_stmt body /\ seq_ok body
  | E2Composite ty elems =>
      match ty with
      | E2Type t => literal_type t
      | E2Ident _ | E2Selector _ _ | E2Index _ _ | E2IndexList _ _ => hdr = false
      | _ => False
      end /\ wf2 hdr ty /\
      all2 (fun kv : option elemv * elemv => opt2 wf_elemv (fst kv) /\ wf_elemv (snd kv)) elems
  | E2Assert e t =>
      primary2 e /\ base_dot e /\ wf2 hdr e /\
      match t with Some t => wfT (wf2 false) t | None => False end
  end
with wf_elemv (v : elemv) {struct v} : Prop :=
  match v with
  | VExpr e => wf2 false e
  | VLit elems =>
      all2 (fun kv : option elemv * elemv => opt2 wf_elemv (fst kv) /\ wf_elemv (snd kv)) elems
  end
with wf_stmt (st : stmt2) {struct st} : Prop :=
  match st with
  | StSimple s => wf_simple wf2 is_ident2 no_type_end false s
  | StLabel _ st => wf_stmt st
  | StBlock body => all2 wf_stmt body /\ seq_ok body
  | StGo c | StDefer c => wf2 false c /\ is_call2 c
  | StReturn es => all2 (wf2 false) es
  | StBranch k lbl => branch_kw k /\ (k = KFallThrough -> lbl = None)
  | StEmpty => True
  | StIf init cond body els =>
      opt2 (wf_simple wf2 is_ident2 no_type_end true) init /\ wf2 true cond /\ brace_stop true cond /\
      all2 wf_stmt body /\ seq_ok body /\
      match els with
      | None => True
      | Some st' =>
          wf_stmt st' /\ match st' with StBlock _ | StIf _ _ _ _ => True | _ => False end
      end
  | StFor h body =>
      match h with
      | FCond c => opt2 (fun s => wf_simple wf2 is_ident2 no_type_end true s /\ simple_stop (brace_stop true) s) c
      | FThree i c p =>
          opt2 (wf_simple wf2 is_ident2 no_type_end true) i /\ opt2 (wf_simple wf2 is_ident2 no_type_end true) c /\
          opt2 (fun s => wf_simple wf2 is_ident2 no_type_end true s /\ simple_stop (brace_stop true) s) p
      end /\ all2 wf_stmt body /\ seq_ok body
  | StRange lhs op x body =>
      length lhs <= 2 /\ all2 (wf2 true) lhs /\
      (lhs <> [] -> (op = OAssign \/ op = ODefine) /\ (op = ODefine -> all2 is_ident2 lhs)) /\
      wf2 true x /\ brace_stop true x /\ all2 wf_stmt body /\ seq_ok body
  | StSwitch init tag clauses =>
      opt2 (wf_simple wf2 is_ident2 no_type_end true) init /\
      opt2 (fun e => wf2 true e /\ brace_stop true e) tag /\
      all2 (fun cl : option (list exp2) * list stmt2 =>
              opt2 (fun es => es <> [] /\ all2 (wf2 false) es) (fst cl) /\
              all2 wf_stmt (snd cl) /\ seq_ok (snd cl)) clauses
  | StTypeSwitch init bind x clauses =>
      opt2 (wf_simple wf2 is_ident2 no_type_end true) init /\
      primary2 x /\ base_dot x /\ wf2 true x /\
      all2 (fun cl : option (list typ2) * list stmt2 =>
              opt2 (fun ts => ts <> [] /\ all2 (wfT (wf2 false)) ts) (fst cl) /\
              all2 wf_stmt (snd cl) /\ seq_ok (snd cl)) clauses
  | StSelect clauses =>
      all2 (fun cl : option (comm exp2) * list stmt2 =>
              opt2 (wf_comm wf2 is_ident2 no_type_end) (fst cl) /\ all2 wf_stmt (snd cl) /\
              seq_ok (snd cl)) clauses
  | StDecl (Decl k grouped specs) =>
      (grouped = false -> length specs = 1) /\
      (fix go (index : nat) (l : list spec2) : Prop :=
         match l with
         | [] => True
         | sp :: r =>
             match sp with
             | SpVar names ty vals =>
                 k = SKVar /\ names <> [] /\ (ty <> None \/ vals <> []) /\
                 opt2 (wfT (wf2 false)) ty /\ all2 (wf2 false) vals
             | SpConst names ty vals =>
                 k = SKConst /\ names <> [] /\ (vals = [] -> ty = None /\ index <> 0) /\
                 opt2 (wfT (wf2 false)) ty /\ all2 (wf2 false) vals
             | SpType name alias ty =>
                 k = SKType /\ wfT (wf2 false) ty /\
                 match ty with
                 | TArray (E2Ident _) _ => True
                 | TArray x _ => alias = true \/ ~ starts_with_ident (print2 x)
                 | _ => True
                 end
             | SpTypeG name tps alias ty =>
                 k = SKType /\ wfT (wf2 false) ty /\
                 all2 (fun g : list str * list (bool * typ2) =>
                         fst g <> [] /\ snd g <> [] /\
                         all2 (fun bt : bool * typ2 => wfT (wf2 false) (snd bt)) (snd g) /\
                         match snd g with
                         | (false, TArrayDots _) :: _ => False
                         | (false, (TSlice _ | TArray _ _)) :: r => r = []
                         | _ => True
                         end) tps /\
                 match tps with
                 | (_, (tilde, t) :: _) :: _ =>
                     tilde = true \/
                     match t with
                     | TName _ | TQual _ _ | TInst _ _ | TInterface _ | TMap _ _ | TChan _ _ | TStruct _
                     | TFunc _ => True
                     | _ => False
                     end
                 | _ => False
                 end
             end /\ go (S index) r
         end) 0 specs
  end.

Definition wf_spec (k : spec_kind) (index : nat) (sp : spec2) : Prop :=
  match sp with
  | SpVar names ty vals =>
      k = SKVar /\ names <> [] /\ (ty <> None \/ vals <> []) /\
      opt2 (wfT (wf2 false)) ty /\ all2 (wf2 false) vals
  | SpConst names ty vals =>
      k = SKConst /\ names <> [] /\ (vals = [] -> ty = None /\ index <> 0) /\
      opt2 (wfT (wf2 false)) ty /\ all2 (wf2 false) vals
  | SpType name alias ty =>
      k = SKType /\ wfT (wf2 false) ty /\
      match ty with
      | TArray (E2Ident _) _ => True
      | TArray x _ => alias = true \/ ~ starts_with_ident (print2 x)
      | _ => True
      end
  | SpTypeG name tps alias ty =>
      k = SKType /\ wfT (wf2 false) ty /\
      all2 (fun g : list str * list (bool * typ2) =>
              fst g <> [] /\ snd g <> [] /\
              all2 (fun bt : bool * typ2 => wfT (wf2 false) (snd bt)) (snd g) /\
              match snd g with
              | (false, TArrayDots _) :: _ => False
              | (false, (TSlice _ | TArray _ _)) :: r => r = []
              | _ => True
              end) tps /\
      match tps with
      | (_, (tilde, t) :: _) :: _ =>
          tilde = true \/
          match t with
          | TName _ | TQual _ _ | TInst _ _ | TInterface _ | TMap _ _ | TChan _ _ | TStruct _
          | TFunc _ => True
          | _ => False
          end
      | _ => False
      end
  end.
Fixpoint wf_specs (k : spec_kind) (index : nat) (l : list spec2) : Prop :=
  match l with
  | [] => True
  | sp :: r => wf_spec k index sp /\ wf_specs k (S index) r
  end.
Definition wf_decl (d : decl2) : Prop :=
  match d with
  | Decl k grouped specs => (grouped = false -> length specs = 1) /\ wf_specs k 0 specs
  end.
Definition wf_elem (kv : option elemv * elemv) : Prop :=
  opt2 wf_elemv (fst kv) /\ wf_elemv (snd kv).
Definition wf_simple2 (hdr : bool) (s : simple2) : Prop := wf_simple wf2 is_ident2 no_type_end hdr s.
Definition simple_stop2 (s : simple2) : Prop := simple_stop (brace_stop true) s.
Definition wf_else (els : option stmt2) : Prop :=
  match els with
  | None => True
  | Some st' => wf_stmt st' /\ match st' with StBlock _ | StIf _ _ _ _ => True | _ => False end
  end.
(* the tag of a type switch as an expression *)
Definition guard_of (x : exp2) : exp2 := E2Assert x None.
Definition wf_guard (hdr : bool) (x : exp2) : Prop := primary2 x /\ base_dot x /\ wf2 hdr x.

(* ------------------------------------------------------------ (e) measures *)

Definition max2 {Y} (f : Y -> nat) (l : list Y) : nat :=
  fold_right (fun a m => Nat.max (f a) m) 0 l.
Definition sum2 {Y} (f : Y -> nat) (l : list Y) : nat := fold_right (fun a m => f a + m) 0 l.
Definition omax {Y} (f : Y -> nat) (o : option Y) : nat := match o with Some x => f x | None => 0 end.

(* a generic "1 + max over everything inside" measure, with a cost per
   construct: [depth2] (nesting: expression levels / recursion hubs, cost c = 1
   for expression forms, 4 for statements and blocks) and [need2] (unfoldings
   of the open recursion, cost 6) are instances *)
Section Measure.
Variable need_mode : bool.      (* false: depth2, true: need2 *)
Definition ce : nat := if need_mode then 4 else 0.    (* cost of an expression level *)
Definition cs : nat := if need_mode then 6 else 4.    (* cost of a statement level *)
(* the measure of a type, given the one of expressions *)
Definition mT (f : exp2 -> nat) (t : typ2) : nat :=
  if need_mode then needT f t + 4 else depthT f t.

Fixpoint me (e : exp2) : nat :=
  match e with
  | E2Ident _ | E2Lit _ _ => 1
  | E2Paren e => ce + 2 + me e
  | E2Unary _ e => S (me e)
  | E2Binary _ l r => S (Nat.max (me l) (me r))
  | E2Call f args _ => Nat.max (me f) (ce + 2 + max2 me args)
  | E2Selector e _ => me e
  | E2Index e i => Nat.max (me e) (ce + 2 + me i)
  | E2IndexList e idx => Nat.max (me e) (ce + 2 + max2 me idx)
  | E2Slice e lo hi mx =>
      Nat.max (me e) (ce + 2 + Nat.max (omax me lo) (Nat.max (omax me hi) (omax me mx)))
  | E2Type t => ce + 2 + mT me t
  | E2FuncLit sg body =>
      cs + mT me (TFunc sg) + max2 ms body
  | E2Composite ty elems =>
      Nat.max (me ty)
        (cs + max2 (fun kv : option elemv * elemv => Nat.max (omax mv (fst kv)) (mv (snd kv))) elems)
  | E2Assert e t => Nat.max (me e) (ce + 2 + omax (mT me) t)
  end
with mv (v : elemv) : nat :=
  match v with
  | VExpr e => S (me e)
  | VLit elems =>
      cs + max2 (fun kv : option elemv * elemv => Nat.max (omax mv (fst kv)) (mv (snd kv))) elems
  end
with ms (st : stmt2) : nat :=
  match st with
  | StSimple s => cs + m_simple Nat.max me s
  | StLabel _ st => cs + ms st
  | StBlock body => cs + max2 ms body
  | StGo c | StDefer c => cs + me c
  | StReturn es => cs + max2 me es
  | StBranch _ _ | StEmpty => cs
  | StIf init cond body els =>
      cs + Nat.max (m_osimple Nat.max me init)
             (Nat.max (me cond) (Nat.max (cs + max2 ms body) (omax ms els)))
  | StFor h body => cs + Nat.max (m_forhdr Nat.max me h) (cs + max2 ms body)
  | StRange lhs _ x body => cs + Nat.max (max2 me lhs) (Nat.max (me x) (cs + max2 ms body))
  | StSwitch init tag clauses =>
      cs + Nat.max (m_osimple Nat.max me init)
             (Nat.max (omax me tag)
                (max2 (fun cl : option (list exp2) * list stmt2 =>
                         Nat.max (omax (max2 me) (fst cl)) (cs + max2 ms (snd cl))) clauses))
  | StTypeSwitch init _ x clauses =>
      cs + Nat.max (m_osimple Nat.max me init)
             (Nat.max (Nat.max (me x) (ce + 2))      (* the guard x.(type) *)
                (max2 (fun cl : option (list typ2) * list stmt2 =>
                         Nat.max (omax (max2 (mT me)) (fst cl)) (cs + max2 ms (snd cl))) clauses))
  | StSelect clauses =>
      cs + max2 (fun cl : option (comm exp2) * list stmt2 =>
                   Nat.max (omax (m_comm Nat.max me) (fst cl))
                           (cs + max2 ms (snd cl))) clauses
  | StDecl (Decl _ _ specs) =>
      cs + max2 (fun sp : spec2 =>
                   match sp with
                   | SpVar _ ty vals | SpConst _ ty vals =>
                       Nat.max (max2 me vals) (omax (mT me) ty)
                   | SpType _ _ t => mT me t
                   | SpTypeG _ tps _ t =>
                       Nat.max (max2 (fun g : list str * list (bool * typ2) =>
                                        max2 (fun bt : bool * typ2 => mT me (snd bt)) (snd g)) tps)
                               (mT me t)
                   end) specs
  end.
End Measure.

Definition depth2 : exp2 -> nat := me false.
Definition depth_stmt2 : stmt2 -> nat := ms false.
Definition depth_elemv : elemv -> nat := mv false.
Definition need2 : exp2 -> nat := me true.
Definition need_stmt2 : stmt2 -> nat := ms true.
Definition need_elemv : elemv -> nat := mv true.
Definition depthT2 : typ2 -> nat := depthT depth2.
Definition needT2 : typ2 -> nat := needT need2.

(* nesting bound of the theorems of stages B-D *)
Definition DEPTH_BOUND2 : nat := 60.

(* structural size, for the induction *)
Fixpoint size2 (e : exp2) : nat :=
  match e with
  | E2Ident _ | E2Lit _ _ => 1
  | E2Paren e | E2Unary _ e | E2Selector e _ => S (size2 e)
  | E2Binary _ l r => S (size2 l + size2 r)
  | E2Call f args _ => S (size2 f + sum2 size2 args)
  | E2Index e i => S (size2 e + size2 i)
  | E2IndexList e idx => S (size2 e + sum2 size2 idx)
  | E2Slice e lo hi mx => S (size2 e + omax size2 lo + omax size2 hi + omax size2 mx)
  | E2Type t => S (sizeX size2 t)
  | E2FuncLit sg body => S (sizeX size2 (TFunc sg) + sum2 size_stmt body)
  | E2Composite ty elems =>
      S (size2 ty +
         sum2 (fun kv : option elemv * elemv => omax size_elemv (fst kv) + size_elemv (snd kv)) elems)
  | E2Assert e t => S (size2 e + omax (sizeX size2) t)
  end
with size_elemv (v : elemv) : nat :=
  match v with
  | VExpr e => S (size2 e)
  | VLit elems =>
      S (sum2 (fun kv : option elemv * elemv => omax size_elemv (fst kv) + size_elemv (snd kv)) elems)
  end
with size_stmt (st : stmt2) : nat :=
  match st with
  | StSimple s => S (m_simple Nat.add size2 s)
  | StLabel _ st => S (size_stmt st)
  | StBlock body => S (sum2 size_stmt body)
  | StGo c | StDefer c => S (size2 c)
  | StReturn es => S (sum2 size2 es)
  | StBranch _ _ | StEmpty => 1
  | StIf init cond body els =>
      S (m_osimple Nat.add size2 init + size2 cond + sum2 size_stmt body + omax size_stmt els)
  | StFor h body => S (m_forhdr Nat.add size2 h + sum2 size_stmt body)
  | StRange lhs _ x body => S (sum2 size2 lhs + size2 x + sum2 size_stmt body)
  | StSwitch init tag clauses =>
      S (m_osimple Nat.add size2 init + omax size2 tag +
         sum2 (fun cl : option (list exp2) * list stmt2 =>
                 S (omax (sum2 size2) (fst cl) + sum2 size_stmt (snd cl))) clauses)
  | StTypeSwitch init _ x clauses =>
      S (m_osimple Nat.add size2 init + size2 x +
         sum2 (fun cl : option (list typ2) * list stmt2 =>
                 S (omax (sum2 (sizeX size2)) (fst cl) + sum2 size_stmt (snd cl))) clauses)
  | StSelect clauses =>
      S (sum2 (fun cl : option (comm exp2) * list stmt2 =>
                 S (omax (m_comm Nat.add size2) (fst cl) + sum2 size_stmt (snd cl))) clauses)
  | StDecl (Decl _ _ specs) =>
      S (sum2 (fun sp : spec2 =>
                 match sp with
                 | SpVar _ ty vals | SpConst _ ty vals =>
                     S (sum2 size2 vals + omax (sizeX size2) ty)
                 | SpType _ _ t => S (sizeX size2 t)
                 | SpTypeG _ tps _ t =>
                     S (sum2 (fun g : list str * list (bool * typ2) =>
                                sum2 (fun bt : bool * typ2 => sizeX size2 (snd bt)) (snd g)) tps +
                        sizeX size2 t)
                 end) specs)
  end.

(* ------------------------------------------------------------ follow conditions *)

(* a token that continues a primary expression whatever the context *)
Definition postfix3 (t : token) : bool :=
  match t with
  | TOperator ODot | TOperator OParenLeft | TOperator OBarackLeft => true
  | _ => false
  end.

(* when the expression ends in a type operand, the type must be over *)
Definition tyfollow (e : exp2) (rst : list token) : Prop :=
  match last_prim e with E2Type ty => tfollow ty rst | _ => True end.

(* what may come after expression e parsed at precedence p (hdr: directly in an
   if/for/switch header, expr_level = -1): the end of input, or a token that is
   neither . ( [ nor a binary operator binding tighter than p nor — unless e
   stops in front of it — a "{" *)
Definition follow2 (hdr : bool) (p : nat) (e : exp2) (rst : list token) : Prop :=
  match rst with
  | [] => True
  | t :: _ =>
      postfix3 t = false /\ (t = tk OBraceLeft -> brace_stop hdr e) /\
      (forall op, t = TOperator op -> level op <= p)
  end /\ tyfollow e rst.
Definition efollow (hdr : bool) (e : exp2) (rst : list token) : Prop := follow2 hdr 0 e rst.

(* ------------------------------------------------------------ stage D: declarations and files *)

Inductive funcdecl : Type :=
| FuncDecl (recv : option (list (group typ2))) (name : str)
           (tparams : list (list str * list (bool * typ2)))       (* [T, U C1 | ~C2, ...] *)
           (sg : sig2) (body : option (list stmt2)).
Inductive topdecl : Type :=
| TopFunc (f : funcdecl)
| TopDecl (d : decl2).
Inductive importspec : Type :=
| ImpPlain (path : str)
| ImpNamed (name path : str)
| ImpDot (path : str).
Inductive file : Type :=
| File (pkg : str) (imports : list (bool * list importspec)) (decls : list topdecl).

Definition print_tparams (tps : list (list str * list (bool * typ2))) : list token :=
  match tps with
  | [] => []
  | _ =>
      tk OBarackLeft ::
      commas (map (fun g : list str * list (bool * typ2) =>
                     printNames (fst g) ++ printUnion print2 (snd g)) tps) ++ [tk OBarackRight]
  end.

Definition print_funcdecl (f : funcdecl) : list token :=
  match f with
  | FuncDecl recv name tps sg body =>
      kw KFunc :: match recv with Some r => printParams print2 r | None => [] end ++
      ident_tok name :: print_tparams tps ++ printSig print2 sg ++
      match body with Some b => print_block b | None => [] end ++ [tk OSemiColon]
  end.

Definition print_topdecl (d : topdecl) : list token :=
  match d with
  | TopFunc f => print_funcdecl f
  | TopDecl d => print_decl print2 (printT print2) d
  end.

Definition print_importspec (i : importspec) : list token :=
  match i with
  | ImpPlain p => [TLiteral LString p]
  | ImpNamed n p => [ident_tok n; TLiteral LString p]
  | ImpDot p => [tk ODot; TLiteral LString p]
  end.

Definition print_import (i : bool * list importspec) : list token :=
  if fst i then
    kw KImport :: tk OParenLeft ::
    flat_map (fun sp => print_importspec sp ++ [tk OSemiColon]) (snd i) ++ [tk OParenRight; tk OSemiColon]
  else kw KImport :: flat_map (fun sp => print_importspec sp ++ [tk OSemiColon]) (snd i).

Definition print_file (f : file) : list token :=
  match f with
  | File pkg imports decls =>
      kw KPackage :: ident_tok pkg :: tk OSemiColon ::
      flat_map print_import imports ++ flat_map print_topdecl decls
  end.

Definition shape_tparams (tps : list (list str * list (bool * typ2))) : shapeT :=
  match tps with
  | [] => sh_fieldlist false []
  | _ => sh_fieldlist true
           (map (fun g : list str * list (bool * typ2) =>
                   sh_field (fst g) (shapeUnion shape2 (snd g)) None) tps)
  end.

Definition shape_funcdecl (f : funcdecl) : shapeT :=
  match f with
  | FuncDecl recv name tps sg body =>
      mkd unit unit GFuncDecl [] [] tt
        [match recv with Some r => shapeParams shape2 true r | None => nnone end;
         sh_ident name;
         n_functype unit unit (Some tt) (shape_tparams tps)
           (shapeParams shape2 true (match sg with Sig p _ _ => p end))
           (shapeParams shape2 (match sg with Sig _ b _ => b end) (match sg with Sig _ _ r => r end));
         match body with Some b => shape_block b | None => nnone end]
  end.

Definition shape_topdecl (d : topdecl) : shapeT :=
  match d with
  | TopFunc f => shape_funcdecl f
  | TopDecl d => shape_decl shape2 (shapeTy shape2) d
  end.

Definition shape_importspec (i : importspec) : shapeT :=
  match i with
  | ImpPlain p => mk unit unit GImport [] [] [nnone; n_strlit unit unit tt p]
  | ImpNamed n p => mk unit unit GImport [] [] [sh_ident n; n_strlit unit unit tt p]
  | ImpDot p => mk unit unit GImport [] [] [sh_ident [46%N]; n_strlit unit unit tt p]
  end.

Definition shape_file (f : file) : shapeT :=
  match f with
  | File pkg imports decls =>
      mkd unit unit GFile [] [] tt
        [sh_ident pkg; nlist (map shape_importspec (flat_map snd imports));
         nlist (map shape_topdecl decls)]
  end.

(* receivers are parsed by `parameters` without the field-list check; type
   parameters of functions by parse_type_parameters *)
Definition wf_tparam (g : list str * list (bool * typ2)) : Prop :=
  fst g <> [] /\ snd g <> [] /\ all2 (fun bt : bool * typ2 => wfT (wf2 false) (snd bt)) (snd g).

Definition wf_funcdecl (f : funcdecl) : Prop :=
  match f with
  | FuncDecl recv name tps sg body =>
      opt2 (wfParams (wf2 false) true) recv /\
      (recv <> None -> tps = []) /\ all2 wf_tparam tps /\
      wfSig (wf2 false) sg /\ opt2 (fun b => all2 wf_stmt b /\ seq_ok b) body
  end.
Definition wf_topdecl (d : topdecl) : Prop :=
  match d with TopFunc f => wf_funcdecl f | TopDecl d => wf_decl d end.
Definition wf_import (i : bool * list importspec) : Prop := fst i = false -> length (snd i) = 1.
Definition wf_file (f : file) : Prop :=
  match f with
  | File pkg imports decls => pkg <> blank /\ all2 wf_import imports /\ all2 wf_topdecl decls
  end.

Definition depth_funcdecl (f : funcdecl) : nat :=
  match f with
  | FuncDecl recv name tps sg body =>
      4 + Nat.max (omax (max2 (depthG depth2)) recv)
            (Nat.max (max2 (fun g : list str * list (bool * typ2) =>
                              max2 (fun bt : bool * typ2 => depthT2 (snd bt)) (snd g)) tps)
               (Nat.max (depthT2 (TFunc sg)) (omax (fun b => 4 + max2 depth_stmt2 b) body)))
  end.
Definition need_funcdecl (f : funcdecl) : nat :=
  match f with
  | FuncDecl recv name tps sg body =>
      6 + Nat.max (omax (max2 (needG need2)) recv)
            (Nat.max (max2 (fun g : list str * list (bool * typ2) =>
                              max2 (fun bt : bool * typ2 => needT2 (snd bt)) (snd g)) tps)
               (Nat.max (needT2 (TFunc sg)) (omax (fun b => 6 + max2 need_stmt2 b) body)))
  end.
Definition depth_topdecl (d : topdecl) : nat :=
  match d with TopFunc f => depth_funcdecl f | TopDecl d => depth_stmt2 (StDecl d) end.
Definition need_topdecl (d : topdecl) : nat :=
  match d with TopFunc f => need_funcdecl f | TopDecl d => need_stmt2 (StDecl d) end.
Definition depth_file (f : file) : nat := match f with File _ _ ds => max2 depth_topdecl ds end.
Definition need_file (f : file) : nat := match f with File _ _ ds => max2 need_topdecl ds end.
