(* C16 specification side: lines and columns of a position, defined directly on
   the source text (a list of code points), independent of the scanner.
   Positions are 0-based character indices; lines are 1-based; columns 0-based. *)
From Coq Require Import List NArith Bool Lia.
From GoSyn Require Import Token Tok.
Import ListNotations.
Open Scope N_scope.

(* number of newline characters in [l] *)
Fixpoint count_nl (l : str) : N :=
  match l with
  | [] => 0
  | c :: l' => (if c =? c_nl then 1 else 0) + count_nl l'
  end.

(* the first [p] characters of the source *)
Definition prefix_upto (src : str) (p : N) : str := firstn (N.to_nat p) src.

(* 1-based line of position [p]: one more than the newlines before [p] *)
Definition true_line (src : str) (p : N) : N := 1 + count_nl (prefix_upto src p).

(* [last_nl_end i acc l]: [l] starts at index [i]; the index just after the
   last newline of [l], or [acc] if [l] has none *)
Fixpoint last_nl_end (i acc : N) (l : str) : N :=
  match l with
  | [] => acc
  | c :: l' => last_nl_end (i + 1) (if c =? c_nl then i + 1 else acc) l'
  end.

(* start offset of the line that contains [p] (0 when no newline precedes [p]) *)
Definition line_start_of (src : str) (p : N) : N := last_nl_end 0 0 (prefix_upto src p).

(* 0-based column of [p]: distance from the start of its line *)
Definition true_col (src : str) (p : N) : N := p - line_start_of src p.

(* [starts_from i l]: [l] starts at index [i]; ascending list of (index + 1)
   of every newline in [l] *)
Fixpoint starts_from (i : N) (l : str) : list N :=
  match l with
  | [] => []
  | c :: l' => if c =? c_nl then (i + 1) :: starts_from (i + 1) l' else starts_from (i + 1) l'
  end.

(* line-start offsets created by the newlines among the first [upto] characters *)
Definition line_starts (src : str) (upto : N) : list N := starts_from 0 (prefix_upto src upto).

(* strictly ascending lists *)
Fixpoint sorted_strict (l : list N) : Prop :=
  match l with
  | [] => True
  | x :: l' => match l' with
               | [] => True
               | y :: _ => x < y /\ sorted_strict l'
               end
  end.

(* the table entries that are <= p, their number, and the last of them *)
Definition entries_le (tbl : list N) (p : N) : list N := filter (fun x => x <=? p) tbl.
Definition count_le (tbl : list N) (p : N) : N := lenN (entries_le tbl p).
(* last entry <= p, or 0 if there is none (so that p - last_le = p) *)
Definition last_le (tbl : list N) (p : N) : N := last (entries_le tbl p) 0.

(* the known off-by-one of Scanner::line_info (pinned by the crate's unit
   tests): every line after the first is reported one too small *)
Definition adj (l : N) : N := if l =? 1 then 1 else l - 1.
