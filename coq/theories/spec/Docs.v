(* C12 specification side: which comments in front of a token are its
   documentation.  Independent of the parser model and of the comment policy.

   The comments in front of a token are given in source order as
   (offset, text).  Lines are ABSTRACT: [L p] is the line of offset [p] and
   [LS p] the offset at which the line containing [p] starts.  (The scanner's
   own line function is known to be off by one after line 1 -- C16 -- so the
   rule is stated for any line function and instantiated afterwards.)

   The rule.
     - two comments are ADJACENT when the second starts at most one line below
       the line on which the first ends (no blank line in between);
     - the LAST GROUP of a comment list is its longest suffix in which
       consecutive comments are adjacent;
     - a comment is TRAILING when it starts on the line on which the previous
       token ends: it belongs to that token, never to the next declaration;
     - the documentation of the token is the last group without its trailing
       comments, provided the token starts at most one line below the end of
       the last of them; otherwise there is none.                              *)
From Coq Require Import List NArith Bool.
From GoSyn Require Import Token Tok.
Import ListNotations.
Open Scope N_scope.

Definition comment : Type := (N * str)%type.

(* offset just after the comment *)
Definition cend (c : comment) : N := fst c + lenN (snd c).

Fixpoint last_opt {X} (l : list X) : option X :=
  match l with
  | [] => None
  | x :: l' => match l' with [] => Some x | _ :: _ => last_opt l' end
  end.

Section Docs.
Variable L : N -> N.      (* line of an offset *)
Variable LS : N -> N.     (* start offset of the line that contains an offset *)

(* [prev]: where the previous token ends (None: there is no previous token) *)
Definition trailing (prev : option N) (c : comment) : Prop :=
  exists e, prev = Some e /\ LS (fst c) <= e.
Definition trailingb (prev : option N) (c : comment) : bool :=
  match prev with
  | Some e => LS (fst c) <=? e
  | None => false
  end.

Definition adjacent (c1 c2 : comment) : Prop := L (fst c2) <= L (cend c1) + 1.
Definition adjacentb (c1 c2 : comment) : bool := L (fst c2) <=? L (cend c1) + 1.

(* the token at [p] directly follows the comment *)
Definition attached (p : N) (c : comment) : Prop := L p <= L (cend c) + 1.
Definition attachedb (p : N) (c : comment) : bool := L p <=? L (cend c) + 1.

(* consecutive comments are adjacent *)
Fixpoint is_run (g : list comment) : Prop :=
  match g with
  | c :: g' => match g' with
               | c' :: _ => adjacent c c' /\ is_run g'
               | [] => True
               end
  | [] => True
  end.
Fixpoint runb (g : list comment) : bool :=
  match g with
  | c :: g' => match g' with
               | c' :: _ => adjacentb c c' && runb g'
               | [] => true
               end
  | [] => true
  end.

(* the longest suffix that is a run: the first suffix, from the longest on,
   that is one *)
Fixpoint last_group (g : list comment) : list comment :=
  match g with
  | [] => []
  | _ :: g' => if runb g then g else last_group g'
  end.

(* the same, declaratively: [r] is a suffix of [g], a run, not empty unless [g]
   is, and the comment in front of it (if any) is not adjacent to its first *)
Definition is_last_group (g r : list comment) : Prop :=
  exists pre,
    g = pre ++ r /\ is_run r /\ (g <> [] -> r <> []) /\
    (forall pre' p c r', pre = pre' ++ [p] -> r = c :: r' -> ~ adjacent p c).

(* the last group without the trailing comments *)
Definition doc_candidates (prev : option N) (g : list comment) : list comment :=
  filter (fun c => negb (trailingb prev c)) (last_group g).

(* [tokpos]: where the token starts (None: end of input, nothing to document,
   the candidates are left as they are) *)
Definition lead_spec (prev : option N) (g : list comment) (tokpos : option N) : list comment :=
  let docs := doc_candidates prev g in
  match tokpos, last_opt docs with
  | Some p, Some c => if attachedb p c then docs else []
  | _, _ => docs
  end.

End Docs.
