(* Specification side of C08: automatic semicolon insertion, rule 1 of the Go
   specification's section "Semicolons":

     "When the input is broken into tokens, a semicolon is automatically
      inserted into the token stream immediately after a line's final token
      if that token is
        - an identifier
        - an integer, floating-point, imaginary, rune, or string literal
        - one of the keywords break, continue, fallthrough, or return
        - one of the operators and punctuation ++, --, ), ], or }"

   together with the section "Comments": "A general comment containing no
   newlines acts like a space.  Any other comment acts like a newline."

   Nothing in this file mentions the scanner model. *)
From Coq Require Import List NArith Bool.
From GoSyn Require Import Token Tok.
Import ListNotations.
Open Scope N_scope.

(* ------------------------------------------------------------ the trigger set *)

(* written out from the rule; comments are not tokens of the language and
   never trigger *)
Definition spec_trigger (t : token) : bool :=
  match t with
  | TLiteral LIdent _ => true                              (* an identifier *)
  | TLiteral LInteger _ | TLiteral LFloat _ | TLiteral LImag _
  | TLiteral LChar _ | TLiteral LString _ => true          (* the five literal kinds *)
  | TKeyword KBreak | TKeyword KContinue
  | TKeyword KFallThrough | TKeyword KReturn => true       (* break continue fallthrough return *)
  | TOperator OInc | TOperator ODec                        (* ++ -- *)
  | TOperator OParenRight | TOperator OBarackRight
  | TOperator OBraceRight => true                          (* ) ] } *)
  | TComment _ => false
  | TKeyword _ => false
  | TOperator _ => false
  end.

(* ------------------------------------------------------------ the line end *)

(* [b] holds no comment terminator "*/" *)
Definition no_close (b : str) : Prop :=
  forall p q, b <> p ++ c_star :: c_slash :: q.

(* [LineEnd ws l]: [l] is the source text that follows a token, and the token
   is the final token of its line: up to the line end, [l] holds nothing but
   blanks and comments.  [ws] is the white-space predicate.

   The order of the constructors is the order in which a reader (and the
   scanner) looks at the next character: newline first, then white space, then
   '/'.  The premise [ws c_slash = false] of the comment constructors says that
   '/' is not itself white space; it holds for every admissible classification
   (see [LineEnd0] below, where it is a global hypothesis).

   General comments: the body [b] is the text between the opening "/*" and the
   first "*/" (hence [no_close b]).
   - LE_gc_newline: a newline occurs before the comment is closed: the comment
     acts like a newline, the line ends inside it;
   - LE_gc_inline: the comment is closed before any newline: it acts like a
     space and the text after it decides;
   - LE_gc_unterminated: the comment is never closed.  The Go specification
     does not say anything about this (the source is in error); the crate's
     try_insert_semicolon answers "line ended" here, with or without a newline
     in [b], so a semicolon is emitted first and the *next* call reports
     "comment not terminated".  Recorded as a constructor of its own so that
     the choice is visible. *)
Inductive LineEnd (ws : N -> bool) : str -> Prop :=
| LE_eof : LineEnd ws []
| LE_nl l : LineEnd ws (c_nl :: l)
| LE_ws c l : c <> c_nl -> ws c = true -> LineEnd ws l -> LineEnd ws (c :: l)
| LE_line_comment l :
    ws c_slash = false -> LineEnd ws (c_slash :: c_slash :: l)
| LE_gc_newline b l :
    ws c_slash = false -> no_close b ->
    LineEnd ws (c_slash :: c_star :: b ++ c_nl :: l)
| LE_gc_inline b l :
    ws c_slash = false -> no_close b -> ~ In c_nl b -> LineEnd ws l ->
    LineEnd ws (c_slash :: c_star :: b ++ c_star :: c_slash :: l)
| LE_gc_unterminated b :
    ws c_slash = false -> no_close b ->
    LineEnd ws (c_slash :: c_star :: b).

(* The same without the side condition on '/': the literal reading of the
   rule.  Equivalent to [LineEnd ws] whenever [ws c_slash = false]
   (SemiProofs.LineEnd0_iff), in particular for every [uclass_ascii_ok]
   classification. *)
Inductive LineEnd0 (ws : N -> bool) : str -> Prop :=
| LE0_eof : LineEnd0 ws []
| LE0_nl l : LineEnd0 ws (c_nl :: l)
| LE0_ws c l : c <> c_nl -> ws c = true -> LineEnd0 ws l -> LineEnd0 ws (c :: l)
| LE0_line_comment l : LineEnd0 ws (c_slash :: c_slash :: l)
| LE0_gc_newline b l :
    no_close b -> LineEnd0 ws (c_slash :: c_star :: b ++ c_nl :: l)
| LE0_gc_inline b l :
    no_close b -> ~ In c_nl b -> LineEnd0 ws l ->
    LineEnd0 ws (c_slash :: c_star :: b ++ c_star :: c_slash :: l)
| LE0_gc_unterminated b :
    no_close b -> LineEnd0 ws (c_slash :: c_star :: b).

(* "the line's final token triggers and the line ends after it" *)
Definition semicolon_due (ws : N -> bool) (t : token) (after : str) : Prop :=
  spec_trigger t = true /\ LineEnd ws after.
