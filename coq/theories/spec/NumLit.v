(* The Go specification's numeric literal grammar ("Integer literals",
   "Floating-point literals", "Imaginary literals"), transcribed production by
   production into regular expressions.  [ x ] is Opt, { x } is Star.

   int_lit        = decimal_lit | binary_lit | octal_lit | hex_lit .
   decimal_lit    = "0" | ( "1" … "9" ) [ [ "_" ] decimal_digits ] .
   binary_lit     = "0" ( "b" | "B" ) [ "_" ] binary_digits .
   octal_lit      = "0" [ "o" | "O" ] [ "_" ] octal_digits .
   hex_lit        = "0" ( "x" | "X" ) [ "_" ] hex_digits .
   decimal_digits = decimal_digit { [ "_" ] decimal_digit } .   (same for the other bases)

   float_lit         = decimal_float_lit | hex_float_lit .
   decimal_float_lit = decimal_digits "." [ decimal_digits ] [ decimal_exponent ] |
                       decimal_digits decimal_exponent |
                       "." decimal_digits [ decimal_exponent ] .
   decimal_exponent  = ( "e" | "E" ) [ "+" | "-" ] decimal_digits .
   hex_float_lit     = "0" ( "x" | "X" ) hex_mantissa hex_exponent .
   hex_mantissa      = [ "_" ] hex_digits "." [ hex_digits ] |
                       [ "_" ] hex_digits |
                       "." hex_digits .
   hex_exponent      = ( "p" | "P" ) [ "+" | "-" ] decimal_digits .

   imaginary_lit = (decimal_digits | int_lit | float_lit) "i" .            *)
From Coq Require Import List NArith Bool.
From GoSyn Require Import Token Tok Regex.
Import ListNotations.
Open Scope N_scope.

Definition under : re := Chr 95.
Definition digits_of (d : re) : re := Cat d (Star (Cat (Opt under) d)).

Definition decimal_digit : re := Cls is_decimal_digit.
Definition binary_digit : re := Cls is_binary_digit.
Definition octal_digit : re := Cls is_octal_digit.
Definition hex_digit : re := Cls is_hex_digit.
Definition nonzero_digit : re := Cls (fun c => (49 <=? c) && (c <=? 57)).

Definition decimal_digits : re := digits_of decimal_digit.
Definition binary_digits : re := digits_of binary_digit.
Definition octal_digits : re := digits_of octal_digit.
Definition hex_digits : re := digits_of hex_digit.

Definition decimal_lit : re :=
  Alt (Chr 48) (Cat nonzero_digit (Opt (Cat (Opt under) decimal_digits))).
Definition binary_lit : re := Seq [Chr 48; OneOf [98; 66]; Opt under; binary_digits].
Definition octal_lit : re := Seq [Chr 48; Opt (OneOf [111; 79]); Opt under; octal_digits].
Definition hex_lit : re := Seq [Chr 48; OneOf [120; 88]; Opt under; hex_digits].
Definition int_lit : re := Any [decimal_lit; binary_lit; octal_lit; hex_lit].

Definition sign : re := OneOf [43; 45].
Definition decimal_exponent : re := Seq [OneOf [101; 69]; Opt sign; decimal_digits].
Definition decimal_float_lit : re :=
  Any [ Seq [decimal_digits; Chr 46; Opt decimal_digits; Opt decimal_exponent];
        Seq [decimal_digits; decimal_exponent];
        Seq [Chr 46; decimal_digits; Opt decimal_exponent] ].
Definition hex_mantissa : re :=
  Any [ Seq [Opt under; hex_digits; Chr 46; Opt hex_digits];
        Seq [Opt under; hex_digits];
        Seq [Chr 46; hex_digits] ].
Definition hex_exponent : re := Seq [OneOf [112; 80]; Opt sign; decimal_digits].
Definition hex_float_lit : re := Seq [Chr 48; OneOf [120; 88]; hex_mantissa; hex_exponent].
Definition float_lit : re := Alt decimal_float_lit hex_float_lit.

Definition imaginary_lit : re := Cat (Any [decimal_digits; int_lit; float_lit]) (Chr 105).

(* the specification's classification of a complete numeric literal *)
Definition NumLit (k : litkind) (s : str) : Prop :=
  match k with
  | LInteger => Matches int_lit s
  | LFloat => Matches float_lit s
  | LImag => Matches imaginary_lit s
  | _ => False
  end.

(* executable oracle *)
Definition numlit_kind (s : str) : option litkind :=
  if matches int_lit s then Some LInteger
  else if matches float_lit s then Some LFloat
  else if matches imaginary_lit s then Some LImag
  else None.

Lemma numlit_kind_sound s k : numlit_kind s = Some k -> NumLit k s.
Proof.
  unfold numlit_kind.
  destruct (matches int_lit s) eqn:H1; [intro H; inversion H; subst; apply matches_iff; exact H1|].
  destruct (matches float_lit s) eqn:H2; [intro H; inversion H; subst; apply matches_iff; exact H2|].
  destruct (matches imaginary_lit s) eqn:H3; [intro H; inversion H; subst; apply matches_iff; exact H3|].
  discriminate.
Qed.
