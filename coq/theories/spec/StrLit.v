(* The Go specification's rune and string literal grammar (Rune literals,
   String literals), as regular expressions, with the prose constraints
   written into the expressions:

   rune_lit         = ' ( unicode_value | byte_value ) ' .
   unicode_value    = unicode_char | little_u_value | big_u_value | escaped_char .
   byte_value       = octal_byte_value | hex_byte_value .
   octal_byte_value = `\` octal_digit octal_digit octal_digit .
   hex_byte_value   = `\` x hex_digit hex_digit .
   little_u_value   = `\` u hex_digit hex_digit hex_digit hex_digit .
   big_u_value      = `\` U hex_digit x 8 .
   escaped_char     = `\` ( a | b | f | n | r | t | v | `\` | ' | `` ) .
   raw_string_lit         = ` { unicode_char | newline } ` .
   interpreted_string_lit = `` { unicode_value | byte_value } `` .

   Prose: Within the quotes, any character may appear except newline and
   unescaped single quote (runes; for interpreted strings: except newline and
   unescaped double quote); a backslash always starts an escape; \' is legal
   only within rune literals, \ only within string literals; octal escapes
   denote values 0..255 (\400 illegal: octal value over 255); \u and \U
   escapes must be valid code points (\uDFFF illegal: surrogate half,
   \U00110000 illegal: invalid Unicode code point); raw strings may contain
   any character except back quote. *)
From Coq Require Import List NArith Bool.
From GoSyn Require Import Token Tok Regex.
Import ListNotations.
Open Scope N_scope.

Definition hexd : re := Cls is_hex_digit.
Definition octd : re := Cls is_octal_digit.
Definition bslash : re := Chr 92.

(* octal value at most 255: the first digit is 0..3 *)
Definition octal_byte_value : re :=
  Seq [bslash; Cls (fun c => (48 <=? c) && (c <=? 51)); octd; octd].
Definition hex_byte_value : re := Seq [bslash; Chr 120; hexd; hexd].

(* four hex digits that are not a surrogate half D800..DFFF:
   first digit not d/D, or first digit d/D and second digit 0..7 *)
Definition is_dD (c : N) : bool := (c =? 100) || (c =? 68).
Definition hex4_no_surrogate : re :=
  Alt (Seq [Cls (fun c => is_hex_digit c && negb (is_dD c)); hexd; hexd; hexd])
      (Seq [Cls is_dD; Cls (fun c => (48 <=? c) && (c <=? 55)); hexd; hexd]).
Definition little_u_value : re := Seq [bslash; Chr 117; hex4_no_surrogate].

(* eight hex digits denoting a value <= 10FFFF that is not a surrogate half:
   "0000" + 4 non-surrogate digits | "000" + nonzero + 4 digits | "0010" + 4 digits *)
Definition is_nonzero_hex (c : N) : bool := is_hex_digit c && negb (c =? 48).
Definition big_u_value : re :=
  Seq [bslash; Chr 85; Chr 48; Chr 48;
       Any [ Seq [Chr 48; Chr 48; hex4_no_surrogate];
             Seq [Chr 48; Cls is_nonzero_hex; hexd; hexd; hexd; hexd];
             Seq [Chr 49; Chr 48; hexd; hexd; hexd; hexd] ]].

(* a b f n r t v and backslash *)
Definition common_escape : re := Seq [bslash; OneOf [97; 98; 102; 110; 114; 116; 118; 92]].

(* one character or escape inside quotes of kind [q] (39 or 34) *)
Definition quoted_value (q : N) : re :=
  Any [ Cls (fun c => negb (c =? 10) && negb (c =? 92) && negb (c =? q));  (* unicode_char *)
        little_u_value; big_u_value; common_escape;
        Seq [bslash; Chr q];                                               (* escaped quote of the own kind *)
        octal_byte_value; hex_byte_value ].

Definition rune_lit : re := Seq [Chr 39; quoted_value 39; Chr 39].
Definition interpreted_string_lit : re := Seq [Chr 34; Star (quoted_value 34); Chr 34].
Definition raw_string_lit : re := Seq [Chr 96; Star (Cls (fun c => negb (c =? 96))); Chr 96].

Definition RuneLit (s : str) : Prop := Matches rune_lit s.
Definition StringLit (s : str) : Prop :=
  Matches interpreted_string_lit s \/ Matches raw_string_lit s.

Definition runelit_b (s : str) : bool := matches rune_lit s.
Definition stringlit_b (s : str) : bool :=
  matches interpreted_string_lit s || matches raw_string_lit s.

Lemma runelit_b_iff s : runelit_b s = true <-> RuneLit s.
Proof. apply matches_iff. Qed.

Lemma stringlit_b_iff s : stringlit_b s = true <-> StringLit s.
Proof.
  unfold stringlit_b, StringLit. rewrite orb_true_iff, !matches_iff. tauto.
Qed.
