(* C02 / C03 / C14 — the specification side of the round trip
     derivation --print--> tokens --parse--> derivation.

   (a) [exp]: derivations of the Go expression grammar restricted to
         e ::= ident | literal | ( e ) | unop e | e binop e
             | e ( e , ... , e [...] ) | e . ident | e [ e ]
             | e [ e , e , ... ]  (generic instantiation)
             | e [ [e] : [e] ] | e [ [e] : e : e ]
       The inductive IS the statement of scope of the round-trip theorem.

   (b) [print]: the in-order token list of a derivation.  It inserts no
       parentheses of its own: only [EParen] nodes print parentheses.

   (c) [shape]: the syntax tree (src/ast.rs, as the rose tree of Ast.v) a
       derivation stands for, with positions and documentation erased
       (the image under [Ast.erase] of the tree the parser builds).

   (d) [wf]: the derivation is the one the Go specification assigns to its own
       printing: binary operands respect the five precedence levels and left
       associativity exactly as [Prec.PrecWF] (a looser binary operation under a
       tighter one must be an [EParen]), the operand of a unary operator is a
       UnaryExpr (not a binary operation unless parenthesised), the base of a
       call / selector / index is a PrimaryExpr.

   (e) [depth]: nesting of parentheses, call arguments, index expressions and
       unary operator chains; [need]: recursion fuel for [parsers_at]. *)
From Coq Require Import List Arith NArith Bool.
From GoSyn Require Import Token Tok Ast Core.
From GoSyn.spec Require Import Prec.
Import ListNotations.

(* ------------------------------------------------------------ (a) derivations *)

Inductive exp : Type :=
| EIdent (name : str)                       (* identifier *)
| ELit (k : litkind) (text : str)           (* BasicLit: int / float / imaginary / rune / string *)
| EParen (e : exp)                          (* "(" Expression ")" *)
| EUnary (op : operator) (e : exp)          (* unary_op UnaryExpr *)
| EBinary (op : operator) (l r : exp)       (* Expression binary_op Expression *)
| ECall (f : exp) (args : list exp) (ddd : bool)
                                            (* PrimaryExpr "(" [ ExpressionList [ "..." ] ] ")" *)
| ESelector (e : exp) (name : str)          (* PrimaryExpr "." identifier *)
| EIndex (e i : exp)                        (* PrimaryExpr "[" Expression "]" *)
| EIndexList (e : exp) (idx : list exp)     (* PrimaryExpr "[" e1 "," e2 { "," e } "]" *)
| ESlice (e : exp) (lo hi mx : option exp). (* PrimaryExpr "[" [lo] ":" [hi] "]"
                                               PrimaryExpr "[" [lo] ":" hi ":" mx "]" *)

(* induction with the call arguments included *)
Section ExpInd.
Variable P : exp -> Prop.
Hypothesis HIdent : forall name, P (EIdent name).
Hypothesis HLit : forall k text, P (ELit k text).
Hypothesis HParen : forall e, P e -> P (EParen e).
Hypothesis HUnary : forall op e, P e -> P (EUnary op e).
Hypothesis HBinary : forall op l r, P l -> P r -> P (EBinary op l r).
Hypothesis HCall : forall f args ddd, P f -> Forall P args -> P (ECall f args ddd).
Hypothesis HSelector : forall e name, P e -> P (ESelector e name).
Hypothesis HIndex : forall e i, P e -> P i -> P (EIndex e i).
Hypothesis HIndexList : forall e idx, P e -> Forall P idx -> P (EIndexList e idx).
Definition optP (o : option exp) : Prop := match o with Some x => P x | None => True end.
Hypothesis HSlice : forall e lo hi mx, P e -> optP lo -> optP hi -> optP mx -> P (ESlice e lo hi mx).

Fixpoint exp_ind_nested (e : exp) : P e :=
  match e with
  | EIdent name => HIdent name
  | ELit k text => HLit k text
  | EParen e => HParen e (exp_ind_nested e)
  | EUnary op e => HUnary op e (exp_ind_nested e)
  | EBinary op l r => HBinary op l r (exp_ind_nested l) (exp_ind_nested r)
  | ECall f args ddd =>
      HCall f args ddd (exp_ind_nested f)
        ((fix go (l : list exp) : Forall P l :=
            match l with
            | [] => Forall_nil P
            | a :: r => Forall_cons a (exp_ind_nested a) (go r)
            end) args)
  | ESelector e name => HSelector e name (exp_ind_nested e)
  | EIndex e i => HIndex e i (exp_ind_nested e) (exp_ind_nested i)
  | EIndexList e idx =>
      HIndexList e idx (exp_ind_nested e)
        ((fix go (l : list exp) : Forall P l :=
            match l with
            | [] => Forall_nil P
            | a :: r => Forall_cons a (exp_ind_nested a) (go r)
            end) idx)
  | ESlice e lo hi mx =>
      let go (o : option exp) : optP o :=
        match o return optP o with Some x => exp_ind_nested x | None => I end in
      HSlice e lo hi mx (exp_ind_nested e) (go lo) (go hi) (go mx)
  end.
End ExpInd.
Arguments optP P o : clear implicits.

(* ------------------------------------------------------------ (b) printing *)

Definition tk (o : operator) : token := TOperator o.

(* x1 , x2 , ... , xn  (no trailing comma) *)
Definition commas (l : list (list token)) : list token :=
  match l with
  | [] => []
  | x :: r => x ++ flat_map (fun y => tk OComma :: y) r
  end.

Fixpoint print (e : exp) : list token :=
  match e with
  | EIdent name => [TLiteral LIdent name]
  | ELit k text => [TLiteral k text]
  | EParen e => tk OParenLeft :: print e ++ [tk OParenRight]
  | EUnary op e => tk op :: print e
  | EBinary op l r => print l ++ tk op :: print r
  | ECall f args ddd =>
      print f ++ tk OParenLeft :: commas (map print args) ++
        (if ddd then [tk ODotDotDot] else []) ++ [tk OParenRight]
  | ESelector e name => print e ++ [tk ODot; TLiteral LIdent name]
  | EIndex e i => print e ++ tk OBarackLeft :: print i ++ [tk OBarackRight]
  | EIndexList e idx => print e ++ tk OBarackLeft :: commas (map print idx) ++ [tk OBarackRight]
  | ESlice e lo hi mx =>
      print e ++ tk OBarackLeft ::
        match lo with Some x => print x | None => [] end ++ tk OColon ::
        match hi with Some x => print x | None => [] end ++
        match mx with Some x => tk OColon :: print x | None => [] end ++ [tk OBarackRight]
  end.

(* the token of a stream element (positions and comment groups forgotten) *)
Definition tok_of {A G : Type} (e : selem A G) : token := match e with SE _ _ t _ => t end.

(* ------------------------------------------------------------ (c) the tree *)

Notation shapeT := (node unit unit).

Fixpoint shape (e : exp) : shapeT :=
  match e with
  | EIdent name => n_ident unit unit tt name
  | ELit k text => n_basic unit unit tt k text
  | EParen e => mk unit unit GParen [tt; tt] [] [shape e]
  | EUnary op e => n_operation unit unit tt op (shape e) None
  | EBinary op l r => n_operation unit unit tt op (shape l) (Some (shape r))
  | ECall f args ddd =>
      mk unit unit GCall [tt; tt] []
        [shape f; nlist (map shape args); if ddd then npos tt else nnone]
  | ESelector e name => mk unit unit GSelector [tt] [] [shape e; n_ident unit unit tt name]
  | EIndex e i => mk unit unit GIndex [tt; tt] [] [shape e; shape i]
  | EIndexList e idx => mk unit unit GIndexList [tt; tt] [] [shape e; nlist (map shape idx)]
  | ESlice e lo hi mx =>
      mk unit unit GSlice [tt; tt] []
        [shape e; match lo with Some x => shape x | None => nnone end;
         match hi with Some x => shape x | None => nnone end;
         match mx with Some x => shape x | None => nnone end]
  end.

(* the same tree with every position equal to [a] (and no documentation);
   [shape e = erase (to_node a e)], RoundTripProofs.erase_to_node *)
Section ToNode.
Variables (A C : Type) (a : A).
Fixpoint to_node (e : exp) : node A C :=
  match e with
  | EIdent name => n_ident A C a name
  | ELit k text => n_basic A C a k text
  | EParen e => mk A C GParen [a; a] [] [to_node e]
  | EUnary op e => n_operation A C a op (to_node e) None
  | EBinary op l r => n_operation A C a op (to_node l) (Some (to_node r))
  | ECall f args ddd =>
      mk A C GCall [a; a] [] [to_node f; nlist (map to_node args); if ddd then npos a else nnone]
  | ESelector e name => mk A C GSelector [a] [] [to_node e; n_ident A C a name]
  | EIndex e i => mk A C GIndex [a; a] [] [to_node e; to_node i]
  | EIndexList e idx => mk A C GIndexList [a; a] [] [to_node e; nlist (map to_node idx)]
  | ESlice e lo hi mx =>
      mk A C GSlice [a; a] []
        [to_node e; match lo with Some x => to_node x | None => nnone end;
         match hi with Some x => to_node x | None => nnone end;
         match mx with Some x => to_node x | None => nnone end]
  end.
End ToNode.
Arguments to_node {A C}.

(* ------------------------------------------------------------ (d) well-formedness *)

(* the unary operators of the Go specification:  + - ! ^ * & <-  *)
Definition unary_op (o : operator) : Prop :=
  match o with
  | OAdd | OSub | ONot | OXor | OStar | OAnd | OArrow => True
  | _ => False
  end.

(* PrimaryExpr: Operand | PrimaryExpr Selector | PrimaryExpr Index | PrimaryExpr Arguments *)
Definition primary (e : exp) : Prop :=
  match e with
  | EUnary _ _ | EBinary _ _ _ => False
  | _ => True
  end.

(* UnaryExpr: PrimaryExpr | unary_op UnaryExpr *)
Definition unary_level (e : exp) : Prop :=
  match e with
  | EBinary _ _ _ => False
  | _ => True
  end.

(* as Prec.at_least / Prec.tighter_than: everything that is not a binary
   operation is an atom of the precedence grammar *)
Definition at_least (p : nat) (e : exp) : Prop :=
  match e with
  | EBinary op _ _ => p <= level op
  | _ => True
  end.
Definition tighter_than (p : nat) (e : exp) : Prop :=
  match e with
  | EBinary op _ _ => p < level op
  | _ => True
  end.

Definition all (P : exp -> Prop) (l : list exp) : Prop :=
  fold_right (fun a acc => P a /\ acc) True l.
Definition opt (P : exp -> Prop) (o : option exp) : Prop :=
  match o with Some x => P x | None => True end.

Fixpoint wf (e : exp) : Prop :=
  match e with
  | EIdent _ => True
  | ELit k _ => k <> LIdent
  | EParen e => wf e
  | EUnary op e => unary_op op /\ unary_level e /\ wf e
  | EBinary op l r =>
      is_binary_op op /\ at_least (level op) l /\ tighter_than (level op) r /\ wf l /\ wf r
  | ECall f args ddd => primary f /\ wf f /\ all wf args /\ (ddd = true -> args <> [])
  | ESelector e _ => primary e /\ wf e
  | EIndex e i => primary e /\ wf e /\ wf i
  | EIndexList e idx => primary e /\ wf e /\ all wf idx /\ 2 <= length idx
  | ESlice e lo hi mx =>
      (* "in a full slice expression only the first index may be omitted" *)
      primary e /\ wf e /\ opt wf lo /\ opt wf hi /\ opt wf mx /\ (mx <> None -> hi <> None)
  end.

(* ------------------------------------------------------------ (e) measures *)

Definition maxl (f : exp -> nat) (l : list exp) : nat :=
  fold_right (fun a m => Nat.max (f a) m) 0 l.
Definition opt0 (f : exp -> nat) (o : option exp) : nat :=
  match o with Some x => f x | None => 0 end.

(* how many recursion hubs / expression levels are open at the deepest point *)
Fixpoint depth (e : exp) : nat :=
  match e with
  | EIdent _ | ELit _ _ => 1
  | EParen e => S (depth e)
  | EUnary _ e => S (depth e)
  | EBinary _ l r => Nat.max (depth l) (depth r)
  | ECall f args _ => Nat.max (depth f) (S (maxl depth args))
  | ESelector e _ => depth e
  | EIndex e i => Nat.max (depth e) (S (depth i))
  | EIndexList e idx => Nat.max (depth e) (S (maxl depth idx))
  | ESlice e lo hi mx =>
      Nat.max (depth e) (S (Nat.max (opt0 depth lo) (Nat.max (opt0 depth hi) (opt0 depth mx))))
  end.

(* the bound of the round-trip theorem: with [depth e <= DEPTH_BOUND] neither
   MAX_DEPTH = 64 (expression level) nor MAX_NESTING = 192 (Parser::nested) is hit *)
Definition DEPTH_BOUND : nat := 64.

(* unfoldings of the open recursion needed ([parsers_at (need e + 2)] suffices) *)
Fixpoint need (e : exp) : nat :=
  match e with
  | EIdent _ | ELit _ _ => 1
  | EParen e => 3 + need e
  | EUnary _ e => S (need e)
  | EBinary _ l r => S (Nat.max (need l) (need r))
  | ECall f args _ => Nat.max (need f) (3 + maxl need args)
  | ESelector e _ => need e
  | EIndex e i => Nat.max (need e) (3 + need i)
  | EIndexList e idx => Nat.max (need e) (3 + maxl need idx)
  | ESlice e lo hi mx =>
      Nat.max (need e) (3 + Nat.max (opt0 need lo) (Nat.max (opt0 need hi) (opt0 need mx)))
  end.

(* ------------------------------------------------------------ follow conditions *)

(* a token that continues a primary expression *)
Definition postfix_tok (t : token) : bool :=
  match t with
  | TOperator ODot | TOperator OParenLeft | TOperator OBarackLeft | TOperator OBraceLeft => true
  | _ => false
  end.

(* what may come after an expression parsed at precedence p: the end of input,
   or a token that neither continues a primary expression nor is a binary
   operator binding tighter than p *)
Definition follow (p : nat) (rst : list token) : Prop :=
  match rst with
  | [] => True
  | t :: _ => postfix_tok t = false /\ forall op, t = TOperator op -> level op <= p
  end.

(* ------------------------------------------------------------ parser states *)

Section States.
Variables (A G D E : Type).
Notation pstateT := (pstate A G D E).

(* the stream ends with the end of input (not with a scanner error) *)
Definition eof_term (s : pstateT) : Prop := exists a g, s_term A G D E s = TEof a g.

(* the parser stands at the first token of ts, and ts is all that is left *)
Definition at_toks (s : pstateT) (ts : list token) : Prop :=
  eof_term s /\
  match ts with
  | [] => s_cur A G D E s = None /\ s_rest A G D E s = []
  | t :: r => (exists p, s_cur A G D E s = Some (p, t)) /\ map tok_of (s_rest A G D E s) = r
  end.

(* Parser.depth and expr_level (= s_lp - s_ln - 1) are what they were *)
Definition frame (s s' : pstateT) : Prop :=
  s_depth A G D E s' = s_depth A G D E s /\
  exists k, s_lp A G D E s' = s_lp A G D E s + k /\ s_ln A G D E s' = s_ln A G D E s + k.
End States.
Arguments eof_term {A G D E}.
Arguments at_toks {A G D E}.
Arguments frame {A G D E}.

(* ------------------------------------------------------------ simple statements
   (C02 / C03 leg): statements built from the expression fragment, as the
   statement parser sees them — terminated by the ";" the source has or the
   scanner inserts at the line end *)

Inductive stmt : Type :=
| SExpr (e : exp)                                (* ExpressionStmt *)
| SAssign (op : operator) (lhs rhs : list exp)   (* Assignment (= += ...) / ShortVarDecl (:=) *)
| SIncDec (op : operator) (e : exp)              (* IncDecStmt *)
| SSend (ch v : exp)                             (* SendStmt *)
| SReturn (es : list exp)                        (* ReturnStmt *)
| SGo (call : exp)                               (* GoStmt *)
| SDefer (call : exp).                           (* DeferStmt *)

Definition print_stmt (st : stmt) : list token :=
  match st with
  | SExpr e => print e
  | SAssign op l r => commas (map print l) ++ tk op :: commas (map print r)
  | SIncDec op e => print e ++ [tk op]
  | SSend ch v => print ch ++ tk OArrow :: print v
  | SReturn es => TKeyword KReturn :: commas (map print es)
  | SGo c => TKeyword KGo :: print c
  | SDefer c => TKeyword KDefer :: print c
  end ++ [tk OSemiColon].

Definition shape_stmt (st : stmt) : shapeT :=
  match st with
  | SExpr e => mk unit unit GExprStmt [] [] [shape e]
  | SAssign op l r =>
      mk unit unit GAssign [tt] [AOp op] [nlist (map shape l); nlist (map shape r)]
  | SIncDec op e => mk unit unit GIncDec [tt] [AOp op] [shape e]
  | SSend ch v => mk unit unit GSend [tt] [] [shape ch; shape v]
  | SReturn es => mk unit unit GReturn [tt] [] (map shape es)
  | SGo c => mk unit unit GGo [tt] [] [shape c]
  | SDefer c => mk unit unit GDefer [tt] [] [shape c]
  end.

Definition is_ident (e : exp) : Prop := match e with EIdent _ => True | _ => False end.
Definition is_call (e : exp) : Prop := match e with ECall _ _ _ => True | _ => False end.

Definition wf_stmt (st : stmt) : Prop :=
  match st with
  | SExpr e => wf e
  | SAssign op l r =>
      is_assign_op op = true /\ l <> [] /\ r <> [] /\ length r <= length l /\
      all wf l /\ all wf r /\
      (* "x, y := ...": only identifiers on the left *)
      (op = ODefine -> all is_ident l)
  | SIncDec op e => (op = OInc \/ op = ODec) /\ wf e
  | SSend ch v => wf ch /\ wf v
  | SReturn es => all wf es
  | SGo c | SDefer c => wf c /\ is_call c
  end.

Definition exprs_of (st : stmt) : list exp :=
  match st with
  | SExpr e | SIncDec _ e | SGo e | SDefer e => [e]
  | SAssign _ l r => l ++ r
  | SSend ch v => [ch; v]
  | SReturn es => es
  end.

Definition depth_stmt (st : stmt) : nat := maxl depth (exprs_of st).
Definition need_stmt (st : stmt) : nat := maxl need (exprs_of st).
