(* C04 — the specification side of operator precedence.

   (a) The Go specification's table of binary operator precedences, written out
       here independently of Token.spec_prec (generated) and Core.prec_nat (the
       model of Operator::precedence):

         Precedence    Operator
             5             *  /  %  <<  >>  &  &^
             4             +  -  |  ^
             3             ==  !=  <  <=  >  >=
             2             &&
             1             ||

       "Binary operators of the same precedence associate from left to right."
       "Unary operators have the highest precedence."

   (b) Abstract binary expression trees over opaque operands ([Atom]), their
       in-order reading [flat], and the grouping the spec dictates, [PrecWF].

   (c) The vocabulary in which the parser theorems are stated: [Trace] (what
       was consumed from the token stream, in order), [stops], [BinOK]. *)
From Coq Require Import List Arith NArith Bool.
From GoSyn Require Import Token Tok Ast Core.
Import ListNotations.

(* ------------------------------------------------------------ (a) the table *)

Definition spec_table : list (operator * N) :=
  [ (OStar, 5); (OQuo, 5); (ORem, 5); (OShl, 5); (OShr, 5); (OAnd, 5); (OAndNot, 5);
    (OAdd, 4); (OSub, 4); (OOr, 4); (OXor, 4);
    (OEqual, 3); (ONotEqual, 3); (OLess, 3); (OLessEqual, 3); (OGreater, 3); (OGreaterEqual, 3);
    (OAndAnd, 2);
    (OOrOr, 1) ]%N.

(* 0 = not a binary operator *)
Definition table_prec (o : operator) : N :=
  match find (fun p => op_eqb o (fst p)) spec_table with
  | Some (_, l) => l
  | None => 0%N
  end.

(* the precedence level of an operator token, as a nat *)
Definition level (o : operator) : nat := N.to_nat (table_prec o).

Definition is_binary_op (o : operator) : Prop := 1 <= level o.

(* ------------------------------------------------------------ (b) trees *)

Section Bexp.
Variables (A C : Type).
Notation nodeT := (node A C).

(* an operand is opaque: whatever the unary-expression parser returned (this
   keeps a unary [GOperation] node such as -x apart from a binary one) *)
Inductive bexp : Type :=
| Atom (n : nodeT)
| Bin (pos : A) (op : operator) (l r : bexp).

(* the syntax tree a [bexp] stands for: Operation { pos, op, x, y: Some(y) } *)
Fixpoint to_node (t : bexp) : nodeT :=
  match t with
  | Atom n => n
  | Bin pos op l r => n_operation A C pos op (to_node l) (Some (to_node r))
  end.

(* source order *)
Inductive item : Type :=
| IOperand (n : nodeT)
| IOp (pos : A) (op : operator).

Fixpoint flat (t : bexp) : list item :=
  match t with
  | Atom n => [IOperand n]
  | Bin pos op l r => flat l ++ IOp pos op :: flat r
  end.

(* the root of [t], if it is an operator, binds strictly tighter than level p *)
Definition tighter_than (p : nat) (t : bexp) : Prop :=
  match t with
  | Atom _ => True
  | Bin _ op _ _ => p < level op
  end.

(* ... at least as tight as level p *)
Definition at_least (p : nat) (t : bexp) : Prop :=
  match t with
  | Atom _ => True
  | Bin _ op _ _ => p <= level op
  end.

(* The grouping dictated by the five levels and left associativity: at every
   binary node  l op r
     - op is a binary operator (level 1..5);
     - r, if it is itself an operation, binds STRICTLY tighter than op
       (so  a - b - c  is never  a - (b - c),  and  a * b + c  never  a * (b + c));
     - l, if it is an operation, binds at least as tight as op
       (so  a + b * c  is never  (a + b) * c). *)
Fixpoint PrecWF (t : bexp) : Prop :=
  match t with
  | Atom _ => True
  | Bin _ op l r =>
      is_binary_op op /\ at_least (level op) l /\ tighter_than (level op) r /\
      PrecWF l /\ PrecWF r
  end.

(* number of binary operators / operands in a tree *)
Fixpoint n_ops (t : bexp) : nat :=
  match t with
  | Atom _ => 0
  | Bin _ _ l r => S (n_ops l + n_ops r)
  end.

(* the operands of a tree, left to right *)
Fixpoint atoms (t : bexp) : list nodeT :=
  match t with
  | Atom n => [n]
  | Bin _ _ l r => atoms l ++ atoms r
  end.

(* ---- parentheses.  ParenExpr { pos: (l, r), expr } *)
Definition paren_node (p0 p1 : A) (e : nodeT) : nodeT := Nd GParen [p0; p1] [] [] [e].

(* a tree with all parentheses forgotten *)
Fixpoint strip_parens (n : nodeT) : nodeT :=
  match n with
  | Nd t ps ats d ks =>
      match t, ks with
      | GParen, [e] => strip_parens e
      | _, _ => Nd t ps ats d (map strip_parens ks)
      end
  end.

(* put the subtree at [path] (false = left, true = right) in parentheses: it
   becomes ONE operand, the Paren node around the tree it stood for *)
Fixpoint paren_at (path : list bool) (p0 p1 : A) (t : bexp) : bexp :=
  match path, t with
  | [], _ => Atom (paren_node p0 p1 (to_node t))
  | _ :: _, Atom n => Atom n
  | false :: p, Bin pos op l r => Bin pos op (paren_at p p0 p1 l) r
  | true :: p, Bin pos op l r => Bin pos op l (paren_at p p0 p1 r)
  end.

End Bexp.

Arguments Atom {A C}.
Arguments Bin {A C}.
Arguments to_node {A C}.
Arguments IOperand {A C}.
Arguments IOp {A C}.
Arguments flat {A C}.
Arguments tighter_than {A C}.
Arguments at_least {A C}.
Arguments PrecWF {A C}.
Arguments n_ops {A C}.
Arguments atoms {A C}.
Arguments paren_node {A C}.
Arguments strip_parens {A C}.
Arguments paren_at {A C}.

(* ------------------------------------------------------------ (c) parser vocabulary *)

Section Vocabulary.
Variables (A G D C E : Type).
Variable OPS : ops A G D C.
Notation nodeT := (node A C).
Notation pstateT := (pstate A G D E).

(* [U s x s']: from state s the operand (unary-expression) parser returns x and
   leaves state s' *)
Variable U : pstateT -> nodeT -> pstateT -> Prop.

(* [Trace s l s']: going from s to s' consumes exactly the items l, in order:
   an operand is one run of the operand parser, an operator is the current
   token, consumed by Parser::next *)
Inductive Trace : pstateT -> list (item A C) -> pstateT -> Prop :=
| Tr_nil : forall s, Trace s [] s
| Tr_operand : forall s x s1 l s',
    U s x s1 -> Trace s1 l s' -> Trace s (IOperand x :: l) s'
| Tr_op : forall s pos op s1 l s',
    s_cur A G D E s = Some (pos, TOperator op) ->
    next A G D C E OPS s = Ok tt s1 ->
    Trace s1 l s' -> Trace s (IOp pos op :: l) s'.

(* the current token is not a binary operator binding tighter than level p *)
Definition stops (p : nat) (s : pstateT) : Prop :=
  forall pos op, s_cur A G D E s = Some (pos, TOperator op) -> level op <= p.

(* what binary_expression(None, p) promises when it returns n in state s' *)
Definition BinOK (p : nat) (s : pstateT) (n : nodeT) (s' : pstateT) : Prop :=
  exists t : bexp A C,
    n = to_node t /\ PrecWF t /\ tighter_than p t /\ stops p s' /\ Trace s (flat t) s'.

(* ... and binary_expression(Some(x), p): x is the first operand *)
Definition BinOKFrom (x : nodeT) (p : nat) (s : pstateT) (n : nodeT) (s' : pstateT) : Prop :=
  exists (t : bexp A C) (rest : list (item A C)),
    n = to_node t /\ PrecWF t /\ tighter_than p t /\ stops p s' /\
    flat t = IOperand x :: rest /\ Trace s rest s'.

(* a result of the real unary-expression parser, at some depth fuel *)
Definition unary_result (s : pstateT) (x : nodeT) (s' : pstateT) : Prop :=
  exists d, k_unary A G D C E (parsers_at A G D C E OPS d) s = Ok x s'.

(* ---- the simplest closed family of inputs:  x0 op1 x1 ... opn xn  <EOF>,
   identifiers separated by binary operators *)
Notation selemT := (selem A G).

(* (op ident)* *)
Inductive op_ident_tail : list selemT -> Prop :=
| oit_nil : op_ident_tail []
| oit_cons : forall a0 a1 op g b0 b1 name h r,
    is_binary_op op -> op_ident_tail r ->
    op_ident_tail (SE a0 a1 (TOperator op) g :: SE b0 b1 (TLiteral LIdent name) h :: r).

Definition expr_stream (l : list selemT) : Prop :=
  exists a0 a1 name g r, l = SE a0 a1 (TLiteral LIdent name) g :: r /\ op_ident_tail r.

(* the items such a stream denotes *)
Definition item_of (e : selemT) : list (item A C) :=
  match e with
  | SE a0 _ (TOperator op) _ => [IOp a0 op]
  | SE a0 _ (TLiteral LIdent name) _ => [IOperand (n_ident A C a0 name)]
  | _ => []
  end.
Definition items_of (l : list selemT) : list (item A C) := flat_map item_of l.

End Vocabulary.

Arguments unary_result {A G D C E}.
Arguments op_ident_tail {A G}.
Arguments expr_stream {A G}.
Arguments item_of {A G C}.
Arguments items_of {A G C}.
Arguments Trace {A G D C E}.
Arguments stops {A G D E}.
Arguments BinOK {A G D C E}.
Arguments BinOKFrom {A G D C E}.
