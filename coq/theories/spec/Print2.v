(* C02 / C03 / C14 — the specification side of the round trip, stage A: TYPES.

   [typ X]: derivations of the Go type grammar, over an arbitrary type [X] of
   expression derivations (the array length is the only place where a type
   contains an expression).  Stage A instantiates X := Print.exp; the later
   stages instantiate X with their own, larger, expression derivations (which
   in turn contain types: the inductive is nested through [typ]).

     Type      = TypeName [ TypeArgs ] | TypeLit | "(" Type ")"
     TypeName  = identifier | identifier "." identifier
     TypeArgs  = "[" Type { "," Type } "]"
     TypeLit   = "*" Type | "[" "]" Type | "[" Expr "]" Type | "[" "..." "]" Type
               | "map" "[" Type "]" Type | "chan" Type | "chan" "<-" Type | "<-" "chan" Type
               | "func" Signature | "struct" "{" { FieldDecl ";" } "}"
               | "interface" "{" { ( MethodElem | TypeElem ) ";" } "}"
     Signature = Parameters [ Parameters | Type ]
     Parameters= "(" [ ParamGroup { "," ParamGroup } ] ")"
     ParamGroup= [ identifier { "," identifier } ] [ "..." ] Type
     FieldDecl = ( identifier { "," identifier } Type | [ "*" ] TypeName [ TypeArgs ] ) [ string ]
     MethodElem= identifier Signature
     TypeElem  = [ "~" ] Type { "|" [ "~" ] Type }

   [printT] inserts nothing of its own: every struct field and every interface
   element is printed with its terminating ";" (the one the scanner inserts at
   a line end), no trailing commas.  [shapeTy] is the tree (positions and
   documentation erased) the parser builds; [wfT] are the side conditions under
   which the derivation is the reading of its own printing; [depthT] counts
   nesting, [needT] the unfoldings of the open recursion. *)
From Coq Require Import List Arith NArith Bool.
From GoSyn Require Import Token Tok Ast Core.
From GoSyn.spec Require Import Prec Print.
Import ListNotations.

(* ------------------------------------------------------------ (a) derivations *)

Inductive chandir : Set := CBoth | CSend | CRecv.   (* chan T / chan<- T / <-chan T *)

(* a, b T   /   T   /   a ...T   /   ...T   (names = [] : unnamed) *)
Inductive group (T : Type) : Type := Group (names : list str) (variadic : bool) (t : T).
(* Parameters [ Result ]; paren = false: the result is absent ([]) or one bare type *)
Inductive fsig (T : Type) : Type :=
  Sig (params : list (group T)) (paren : bool) (results : list (group T)).
(* a, b T "tag"  /  T "tag" (names = [] : embedded field) *)
Inductive sfield (T : Type) : Type := Field (names : list str) (t : T) (tag : option str).
Inductive ielem (T : Type) : Type :=
| IMethod (name : str) (s : fsig T)
| IUnion (terms : list (bool * T)).     (* [~]T1 | [~]T2 | ... *)
Arguments Group {T}. Arguments Sig {T}. Arguments Field {T}.
Arguments IMethod {T}. Arguments IUnion {T}.

Section Typ.
Variable X : Type.

Inductive typ : Type :=
| TName (name : str)                          (* T *)
| TQual (pkg name : str)                      (* pkg.T *)
| TInst (base : typ) (args : list typ)        (* T[A, B]   pkg.T[A] *)
| TPtr (t : typ)                              (* *T *)
| TSlice (t : typ)                            (* []T *)
| TArray (len : X) (t : typ)                  (* [e]T *)
| TArrayDots (t : typ)                        (* [...]T *)
| TMap (k v : typ)                            (* map[K]V *)
| TChan (dir : chandir) (t : typ)
| TParen (t : typ)                            (* (T) *)
| TFunc (s : fsig typ)                         (* func(params) results *)
| TStruct (fields : list (sfield typ))
| TInterface (elems : list (ielem typ)).

Definition group_t {T} (g : group T) : T := match g with Group _ _ t => t end.
Definition group_names {T} (g : group T) : list str := match g with Group n _ _ => n end.
Definition group_var {T} (g : group T) : bool := match g with Group _ v _ => v end.

(* ------------------------------------------------------------ (b) printing *)

Variable printX : X -> list token.

Definition ident_tok (n : str) : token := TLiteral LIdent n.
Definition kw (k : keyword) : token := TKeyword k.

(* x1 | x2 | ... *)
Definition bars (l : list (list token)) : list token :=
  match l with
  | [] => []
  | x :: r => x ++ flat_map (fun y => tk OOr :: y) r
  end.

Fixpoint printT (t : typ) : list token :=
  match t with
  | TName n => [ident_tok n]
  | TQual p n => [ident_tok p; tk ODot; ident_tok n]
  | TInst b args => printT b ++ tk OBarackLeft :: commas (map printT args) ++ [tk OBarackRight]
  | TPtr t => tk OStar :: printT t
  | TSlice t => tk OBarackLeft :: tk OBarackRight :: printT t
  | TArray x t => tk OBarackLeft :: printX x ++ tk OBarackRight :: printT t
  | TArrayDots t => tk OBarackLeft :: tk ODotDotDot :: tk OBarackRight :: printT t
  | TMap k v => kw KMap :: tk OBarackLeft :: printT k ++ tk OBarackRight :: printT v
  | TChan CBoth t => kw KChan :: printT t
  | TChan CSend t => kw KChan :: tk OArrow :: printT t
  | TChan CRecv t => tk OArrow :: kw KChan :: printT t
  | TParen t => tk OParenLeft :: printT t ++ [tk OParenRight]
  | TFunc (Sig ps paren rs) =>
      let pg (g : group typ) :=
        match g with
        | Group names v t =>
            commas (map (fun n => [ident_tok n]) names) ++
            (if v then [tk ODotDotDot] else []) ++ printT t
        end in
      kw KFunc :: tk OParenLeft :: commas (map pg ps) ++ tk OParenRight ::
      (if paren then tk OParenLeft :: commas (map pg rs) ++ [tk OParenRight]
       else commas (map pg rs))
  | TStruct fs =>
      kw KStruct :: tk OBraceLeft ::
      flat_map (fun f =>
        match f with
        | Field names t tag =>
            commas (map (fun n => [ident_tok n]) names) ++ printT t ++
            match tag with Some v => [TLiteral LString v] | None => [] end ++ [tk OSemiColon]
        end) fs ++ [tk OBraceRight]
  | TInterface es =>
      kw KInterface :: tk OBraceLeft ::
      flat_map (fun e =>
        match e with
        | IMethod name (Sig ps paren rs) =>
            let pg (g : group typ) :=
              match g with
              | Group names v t =>
                  commas (map (fun n => [ident_tok n]) names) ++
                  (if v then [tk ODotDotDot] else []) ++ printT t
              end in
            ident_tok name :: tk OParenLeft :: commas (map pg ps) ++ tk OParenRight ::
            (if paren then tk OParenLeft :: commas (map pg rs) ++ [tk OParenRight]
             else commas (map pg rs)) ++ [tk OSemiColon]
        | IUnion terms =>
            bars (map (fun bt : bool * typ =>
                         (if fst bt then [tk OTiled] else []) ++ printT (snd bt)) terms)
            ++ [tk OSemiColon]
        end) es ++ [tk OBraceRight]
  end.

(* the pieces, as functions of their own (definitionally the ones inlined above) *)
Definition printNames (names : list str) : list token :=
  commas (map (fun n => [ident_tok n]) names).
Definition printG (g : group typ) : list token :=
  match g with
  | Group names v t => printNames names ++ (if v then [tk ODotDotDot] else []) ++ printT t
  end.
Definition printParams (ps : list (group typ)) : list token :=
  tk OParenLeft :: commas (map printG ps) ++ [tk OParenRight].
Definition printSig (s : fsig typ) : list token :=
  match s with
  | Sig ps paren rs =>
      tk OParenLeft :: commas (map printG ps) ++ tk OParenRight ::
      (if paren then tk OParenLeft :: commas (map printG rs) ++ [tk OParenRight]
       else commas (map printG rs))
  end.
Definition printTag (tag : option str) : list token :=
  match tag with Some v => [TLiteral LString v] | None => [] end.
Definition printF (f : sfield typ) : list token :=
  match f with
  | Field names t tag => printNames names ++ printT t ++ printTag tag ++ [tk OSemiColon]
  end.
Definition printTerm (bt : bool * typ) : list token :=
  (if fst bt then [tk OTiled] else []) ++ printT (snd bt).
Definition printUnion (terms : list (bool * typ)) : list token := bars (map printTerm terms).
Definition printI (e : ielem typ) : list token :=
  match e with
  | IMethod name s => ident_tok name :: printSig s ++ [tk OSemiColon]
  | IUnion terms => printUnion terms ++ [tk OSemiColon]
  end.

(* ------------------------------------------------------------ (c) the tree *)

Variable shapeX : X -> shapeT.

Definition sh_ident (n : str) : shapeT := n_ident unit unit tt n.
Definition sh_field (names : list str) (typ : shapeT) (tag : option str) : shapeT :=
  n_field unit unit (map sh_ident names) typ
    (match tag with Some v => Some (n_strlit unit unit tt v) | None => None end) tt.
Definition sh_fieldlist (paren : bool) (l : list shapeT) : shapeT :=
  n_fieldlist unit unit (if paren then Some (tt, tt) else None) l.
Definition sh_ellipsis (elt : shapeT) : shapeT := mk unit unit GEllipsis [tt] [] [elt].
Definition dir_code (d : chandir) : nat :=
  match d with CBoth => 0 | CSend => 1 | CRecv => 2 end.

(* x1 | x2 | x3  =  ((x1 | x2) | x3) *)
Definition sh_union (l : list shapeT) : shapeT :=
  match l with
  | [] => nnone
  | x :: r => fold_left (fun acc y => n_operation unit unit tt OOr acc (Some y)) r x
  end.

Fixpoint shapeTy (t : typ) : shapeT :=
  match t with
  | TName n => sh_ident n
  | TQual p n => mk unit unit GSelector [tt] [] [sh_ident p; sh_ident n]
  | TInst b args =>
      mk unit unit GIndex [tt; tt] []
        [shapeTy b; match args with [a] => shapeTy a | _ => nlist (map shapeTy args) end]
  | TPtr t => mk unit unit GTypePointer [tt] [] [shapeTy t]
  | TSlice t => mk unit unit GTypeSlice [tt; tt] [] [shapeTy t]
  | TArray x t => mk unit unit GTypeArray [tt; tt] [] [shapeX x; shapeTy t]
  | TArrayDots t => mk unit unit GTypeArray [tt; tt] [] [sh_ellipsis nnone; shapeTy t]
  | TMap k v => mk unit unit GTypeMap [tt; tt] [] [shapeTy k; shapeTy v]
  | TChan d t => mk unit unit GTypeChannel [tt; tt] [ADir (dir_code d)] [shapeTy t]
  | TParen t => mk unit unit GParen [tt; tt] [] [shapeTy t]
  | TFunc (Sig ps paren rs) =>
      let sg (g : group typ) :=
        match g with
        | Group names v t =>
            sh_field names (if v then sh_ellipsis (shapeTy t) else shapeTy t) None
        end in
      n_functype unit unit (Some tt) (sh_fieldlist false [])
        (sh_fieldlist true (map sg ps)) (sh_fieldlist paren (map sg rs))
  | TStruct fs =>
      mk unit unit GTypeStruct [tt; tt] []
        (map (fun f => match f with Field names t tag => sh_field names (shapeTy t) tag end) fs)
  | TInterface es =>
      mk unit unit GTypeInterface [tt] []
        [sh_fieldlist true
           (map (fun e =>
              match e with
              | IMethod name (Sig ps paren rs) =>
                  let sg (g : group typ) :=
                    match g with
                    | Group names v t =>
                        sh_field names (if v then sh_ellipsis (shapeTy t) else shapeTy t) None
                    end in
                  sh_field [name]
                    (n_functype unit unit None (sh_fieldlist false [])
                       (sh_fieldlist true (map sg ps)) (sh_fieldlist paren (map sg rs))) None
              | IUnion terms =>
                  sh_field []
                    (sh_union (map (fun bt : bool * typ =>
                        if fst bt then n_operation unit unit tt OTiled (shapeTy (snd bt)) None
                        else shapeTy (snd bt)) terms)) None
              end) es)]
  end.

Definition shapeG (g : group typ) : shapeT :=
  match g with
  | Group names v t => sh_field names (if v then sh_ellipsis (shapeTy t) else shapeTy t) None
  end.
Definition shapeParams (paren : bool) (l : list (group typ)) : shapeT :=
  sh_fieldlist paren (map shapeG l).
Definition shapeSig (pos : bool) (s : fsig typ) : shapeT :=
  match s with
  | Sig ps paren rs =>
      n_functype unit unit (if pos then Some tt else None) (sh_fieldlist false [])
        (shapeParams true ps) (shapeParams paren rs)
  end.
Definition shapeF (f : sfield typ) : shapeT :=
  match f with Field names t tag => sh_field names (shapeTy t) tag end.
Definition shapeTerm (bt : bool * typ) : shapeT :=
  if fst bt then n_operation unit unit tt OTiled (shapeTy (snd bt)) None else shapeTy (snd bt).
Definition shapeUnion (terms : list (bool * typ)) : shapeT := sh_union (map shapeTerm terms).
Definition shapeI (e : ielem typ) : shapeT :=
  match e with
  | IMethod name s => sh_field [name] (shapeSig false s) None
  | IUnion terms => sh_field [] (shapeUnion terms) None
  end.

(* ------------------------------------------------------------ (d) well-formedness *)

Variable wfX : X -> Prop.

Definition blank : str := [95%N].

Definition is_typename (t : typ) : Prop :=
  match t with TName _ | TQual _ _ => True | _ => False end.
Definition is_recv_chan (t : typ) : Prop :=
  match t with TChan CRecv _ => True | _ => False end.
Definition is_paren (t : typ) : Prop := match t with TParen _ => True | _ => False end.
Definition is_dots (t : typ) : Prop := match t with TArrayDots _ => True | _ => False end.
(* T[A]: instantiation of an unqualified name *)
Definition is_plain_inst (t : typ) : Prop :=
  match t with TInst (TName _) _ => True | _ => False end.

Definition allT {Y} (P : Y -> Prop) (l : list Y) : Prop :=
  fold_right (fun a acc => P a /\ acc) True l.

(* a parameter list: all groups named or all unnamed; "..." only in the last
   group (and only where [variadic_ok]), with at most one name in front of it *)
Fixpoint params_form (variadic_ok : bool) (l : list (group typ)) : Prop :=
  match l with
  | [] => True
  | g :: r =>
      (group_var g = true -> variadic_ok = true /\ r = [] /\ length (group_names g) <= 1) /\
      params_form variadic_ok r
  end.
Definition all_named (l : list (group typ)) : Prop := allT (fun g => group_names g <> []) l.
Definition all_unnamed (l : list (group typ)) : Prop := allT (fun g => group_names g = []) l.

(* the crate parses the type arguments of an unnamed parameter `T[A]` and of an
   embedded field `T[A]` as EXPRESSIONS (recorded finding); `a [...]T` is no
   parameter / field *)
Definition group_ok (g : group typ) : Prop :=
  match g with
  | Group [] _ t => ~ is_plain_inst t
  | Group (_ :: _) _ t => ~ is_dots t
  end.

(* embedded field:  T  pkg.T  pkg.T[A]  *T  *pkg.T  *T[A]  *pkg.T[A] *)
Definition embeddable (t : typ) : Prop :=
  match t with
  | TName _ | TQual _ _ | TInst (TQual _ _) _ => True
  | TPtr (TName _) | TPtr (TQual _ _) | TPtr (TInst _ _) => True
  | _ => False
  end.

Fixpoint wfT (t : typ) : Prop :=
  match t with
  | TName n => n <> blank
  | TQual p _ => p <> blank
  | TInst b args => is_typename b /\ wfT b /\ args <> [] /\ allT wfT args
  | TPtr t | TSlice t | TArrayDots t | TParen t => wfT t
  | TArray x t => wfX x /\ wfT t
  | TMap k v => wfT k /\ wfT v
  | TChan d t => wfT t /\ (d = CBoth -> ~ is_recv_chan t)
  | TFunc (Sig ps paren rs) =>
      params_form true ps /\ (all_named ps \/ all_unnamed ps) /\
      allT (fun g => group_ok g /\ wfT (group_t g)) ps /\
      params_form false rs /\ (all_named rs \/ all_unnamed rs) /\
      allT (fun g => group_ok g /\ wfT (group_t g)) rs /\
      (paren = false ->
         rs = [] \/ exists t, rs = [Group [] false t] /\ ~ is_paren t)
  | TStruct fs =>
      allT (fun f =>
        match f with
        | Field names t _ =>
            wfT t /\
            match names with
            | [] => embeddable t
            | [_] => ~ is_dots t
            | _ => True
            end
        end) fs
  | TInterface es =>
      allT (fun e =>
        match e with
        | IMethod _ (Sig ps paren rs) =>
            params_form true ps /\ (all_named ps \/ all_unnamed ps) /\
            allT (fun g => group_ok g /\ wfT (group_t g)) ps /\
            params_form false rs /\ (all_named rs \/ all_unnamed rs) /\
            allT (fun g => group_ok g /\ wfT (group_t g)) rs /\
            (paren = false ->
               rs = [] \/ exists t, rs = [Group [] false t] /\ ~ is_paren t)
        | IUnion terms => terms <> [] /\ allT (fun bt : bool * typ => wfT (snd bt)) terms
        end) es
  end.

Definition wfParams (variadic_ok : bool) (l : list (group typ)) : Prop :=
  params_form variadic_ok l /\ (all_named l \/ all_unnamed l) /\
  allT (fun g => group_ok g /\ wfT (group_t g)) l.
Definition wfSig (s : fsig typ) : Prop :=
  match s with
  | Sig ps paren rs =>
      params_form true ps /\ (all_named ps \/ all_unnamed ps) /\
      allT (fun g => group_ok g /\ wfT (group_t g)) ps /\
      params_form false rs /\ (all_named rs \/ all_unnamed rs) /\
      allT (fun g => group_ok g /\ wfT (group_t g)) rs /\
      (paren = false -> rs = [] \/ exists t, rs = [Group [] false t] /\ ~ is_paren t)
  end.
Definition wfF (f : sfield typ) : Prop :=
  match f with
  | Field names t _ =>
      wfT t /\ match names with [] => embeddable t | [_] => ~ is_dots t | _ => True end
  end.
Definition wfI (e : ielem typ) : Prop :=
  match e with
  | IMethod _ s => wfSig s
  | IUnion terms => terms <> [] /\ allT (fun bt : bool * typ => wfT (snd bt)) terms
  end.

(* ------------------------------------------------------------ (e) measures *)

Variables depthX needX : X -> nat.

Definition maxT {Y} (f : Y -> nat) (l : list Y) : nat :=
  fold_right (fun a m => Nat.max (f a) m) 0 l.

Fixpoint depthT (t : typ) : nat :=
  match t with
  | TName _ | TQual _ _ => 1
  | TInst b args => 2 + maxT depthT args
  | TPtr t | TSlice t | TArrayDots t | TParen t | TChan _ t => S (depthT t)
  | TArray x t => 2 + Nat.max (depthX x) (depthT t)
  | TMap k v => S (Nat.max (depthT k) (depthT v))
  | TFunc (Sig ps _ rs) =>
      3 + Nat.max (maxT (fun g => depthT (group_t g)) ps) (maxT (fun g => depthT (group_t g)) rs)
  | TStruct fs => 3 + maxT (fun f => match f with Field _ t _ => depthT t end) fs
  | TInterface es =>
      3 + maxT (fun e =>
            match e with
            | IMethod _ (Sig ps _ rs) =>
                2 + Nat.max (maxT (fun g => depthT (group_t g)) ps)
                            (maxT (fun g => depthT (group_t g)) rs)
            | IUnion terms => maxT (fun bt : bool * typ => depthT (snd bt)) terms
            end) es
  end.

(* bound of the theorems: nesting of types (and of the expressions in array
   lengths) up to TDEPTH_BOUND keeps the parser below MAX_DEPTH = 64 (expression
   level) and MAX_NESTING = 192 *)
Definition TDEPTH_BOUND : nat := 60.

Fixpoint needT (t : typ) : nat :=
  match t with
  | TName _ | TQual _ _ => 2
  | TInst b args => 4 + maxT needT args
  | TPtr t | TSlice t | TArrayDots t | TParen t | TChan _ t => 4 + needT t
  | TArray x t => 4 + Nat.max (needX x + 2) (needT t)
  | TMap k v => 4 + Nat.max (needT k) (needT v)
  | TFunc (Sig ps _ rs) =>
      4 + Nat.max (maxT (fun g => needT (group_t g)) ps) (maxT (fun g => needT (group_t g)) rs)
  | TStruct fs => 4 + maxT (fun f => match f with Field _ t _ => needT t end) fs
  | TInterface es =>
      4 + maxT (fun e =>
            match e with
            | IMethod _ (Sig ps _ rs) =>
                4 + Nat.max (maxT (fun g => needT (group_t g)) ps)
                            (maxT (fun g => needT (group_t g)) rs)
            | IUnion terms => 4 + maxT (fun bt : bool * typ => needT (snd bt)) terms
            end) es
  end.

Definition depthG (g : group typ) : nat := depthT (group_t g).
Definition needG (g : group typ) : nat := needT (group_t g).
Definition depthSig (s : fsig typ) : nat :=
  match s with Sig ps _ rs => Nat.max (maxT depthG ps) (maxT depthG rs) end.
Definition needSig (s : fsig typ) : nat :=
  match s with Sig ps _ rs => Nat.max (maxT needG ps) (maxT needG rs) end.

(* structural size (for the induction over the nested inductive) *)
Definition sumT {Y} (f : Y -> nat) (l : list Y) : nat := fold_right (fun a m => f a + m) 0 l.
Fixpoint sizeT (t : typ) : nat :=
  match t with
  | TName _ | TQual _ _ => 1
  | TInst b args => S (sizeT b + sumT sizeT args)
  | TPtr t | TSlice t | TArrayDots t | TParen t | TChan _ t | TArray _ t => S (sizeT t)
  | TMap k v => S (sizeT k + sizeT v)
  | TFunc (Sig ps _ rs) =>
      S (sumT (fun g => sizeT (group_t g)) ps + sumT (fun g => sizeT (group_t g)) rs)
  | TStruct fs => S (sumT (fun f => match f with Field _ t _ => sizeT t end) fs)
  | TInterface es =>
      S (sumT (fun e =>
            match e with
            | IMethod _ (Sig ps _ rs) =>
                S (sumT (fun g => sizeT (group_t g)) ps + sumT (fun g => sizeT (group_t g)) rs)
            | IUnion terms => S (sumT (fun bt : bool * typ => sizeT (snd bt)) terms)
            end) es)
  end.

(* every array length in t satisfies P *)
Variable P : X -> Prop.
Fixpoint allX (t : typ) : Prop :=
  match t with
  | TName _ | TQual _ _ => True
  | TInst b args => allX b /\ allT allX args
  | TPtr t | TSlice t | TArrayDots t | TParen t | TChan _ t => allX t
  | TArray x t => P x /\ allX t
  | TMap k v => allX k /\ allX v
  | TFunc (Sig ps _ rs) =>
      allT (fun g => allX (group_t g)) ps /\ allT (fun g => allX (group_t g)) rs
  | TStruct fs => allT (fun f => match f with Field _ t _ => allX t end) fs
  | TInterface es =>
      allT (fun e =>
        match e with
        | IMethod _ (Sig ps _ rs) =>
            allT (fun g => allX (group_t g)) ps /\ allT (fun g => allX (group_t g)) rs
        | IUnion terms => allT (fun bt : bool * typ => allX (snd bt)) terms
        end) es
  end.

(* ------------------------------------------------------------ follow conditions *)

(* how a type ends: what the parser would still take after it *)
Inductive tailk : Set := KClosed | KName | KQual | KFuncNoResult.

Fixpoint tail (t : typ) : tailk :=
  match t with
  | TName _ => KName
  | TQual _ _ => KQual
  | TInst _ _ | TParen _ | TStruct _ | TInterface _ => KClosed
  | TPtr t | TSlice t | TArray _ t | TArrayDots t | TMap _ t | TChan _ t => tail t
  | TFunc (Sig _ paren rs) =>
      if paren then KClosed
      else match rs with [] => KFuncNoResult | g :: _ => tail (group_t g) end
  end.

(* the first token of a type *)
Definition type_start (t : token) : bool :=
  match t with
  | TLiteral LIdent _ => true
  | TOperator (OStar | OArrow | OBarackLeft | OParenLeft) => true
  | TKeyword (KFunc | KChan | KMap | KStruct | KInterface) => true
  | _ => false
  end.

(* what may come after type t: the end of input, or a token the type parser
   does not take as a continuation of t —
     after a type name: not "." and not "[";  after pkg.T: not "[";
     after a func type without result: nothing that starts a type (or a result list) *)
Definition tfollow (t : typ) (rst : list token) : Prop :=
  match rst with
  | [] => True
  | tok :: _ =>
      match tail t with
      | KClosed => True
      | KName => tok_is tok (KOp ODot) = false /\ tok_is tok (KOp OBarackLeft) = false
      | KQual => tok_is tok (KOp OBarackLeft) = false
      | KFuncNoResult => type_start tok = false
      end
  end.

End Typ.

Arguments TName {X}. Arguments TQual {X}. Arguments TInst {X}. Arguments TPtr {X}.
Arguments TSlice {X}. Arguments TArray {X}. Arguments TArrayDots {X}. Arguments TMap {X}.
Arguments TChan {X}. Arguments TParen {X}. Arguments TFunc {X}. Arguments TStruct {X}.
Arguments TInterface {X}.
Arguments printT {X}. Arguments printG {X}. Arguments printParams {X}. Arguments printSig {X}.
Arguments printF {X}. Arguments printTerm {X}. Arguments printUnion {X}. Arguments printI {X}.
Arguments shapeTy {X}. Arguments shapeG {X}. Arguments shapeParams {X}. Arguments shapeSig {X}.
Arguments shapeF {X}. Arguments shapeTerm {X}. Arguments shapeUnion {X}. Arguments shapeI {X}.
Arguments wfT {X}. Arguments wfParams {X}. Arguments wfSig {X}. Arguments wfF {X}. Arguments wfI {X}.
Arguments group_ok {X}. Arguments embeddable {X}. Arguments params_form {X}.
Arguments all_named {X}. Arguments all_unnamed {X}.
Arguments is_typename {X}. Arguments is_recv_chan {X}. Arguments is_paren {X}.
Arguments is_dots {X}. Arguments is_plain_inst {X}.
Arguments depthT {X}. Arguments needT {X}. Arguments depthG {X}. Arguments needG {X}.
Arguments depthSig {X}. Arguments needSig {X}. Arguments sizeT {X}. Arguments allX {X}.
Arguments tail {X}. Arguments tfollow {X}.

(* ------------------------------------------------------------ stage A: X := Print.exp *)

Notation typA := (typ exp).
Definition printA : typA -> list token := printT print.
Definition shapeA : typA -> shapeT := shapeTy shape.
Definition wfA : typA -> Prop := wfT wf.
Definition depthA : typA -> nat := depthT depth.
Definition needA : typA -> nat := needT need.
