(* C07 -- specification side of "the token sequence tiles the source".

   - the Go specification's tables ("Operators and punctuation", "Keywords"),
     written out as the strings of the specification text;
   - the identifier production  identifier = letter { letter | unicode_digit } .
   - what it means for a list of (start, token, end) triples to tile a source. *)
From Coq Require Import String Ascii.
From Coq Require Import List NArith Bool Lia.
From GoSyn Require Import Token Tok.
Import ListNotations.
Open Scope N_scope.

(* ------------------------------------------------------------ the spec's tables *)

(* code points of an (ASCII) Coq string *)
Definition s2l (s : string) : str := map N_of_ascii (list_ascii_of_string s).

(* "Operators and punctuation", row by row as printed in the specification *)
Definition spec_operator_strings : list string :=
  [ "+";  "&";   "+=";  "&=";   "&&";  "==";  "!=";  "(";  ")";
    "-";  "|";   "-=";  "|=";   "||";  "<";   "<=";  "[";  "]";
    "*";  "^";   "*=";  "^=";   "<-";  ">";   ">=";  "{";  "}";
    "/";  "<<";  "/=";  "<<=";  "++";  "=";   ":=";  ",";  ";";
    "%";  ">>";  "%=";  ">>=";  "--";  "!";   "...";  ".";  ":";
    "&^"; "&^="; "~" ]%string.

Definition spec_operators : list str := map s2l spec_operator_strings.

(* "Keywords" (column by column = alphabetically) *)
Definition spec_keyword_strings : list string :=
  [ "break"; "case"; "chan"; "const"; "continue";
    "default"; "defer"; "else"; "fallthrough"; "for";
    "func"; "go"; "goto"; "if"; "import";
    "interface"; "map"; "package"; "range"; "return";
    "select"; "struct"; "switch"; "type"; "var" ]%string.

Definition spec_keywords : list str := map s2l spec_keyword_strings.

(* ------------------------------------------------------------ prefixes, slices *)

Definition is_prefix (p l : str) : Prop := exists rest, l = p ++ rest.

(* the source text at [p, e) *)
Definition slice (src : str) (p e : N) : str :=
  firstn (N.to_nat (e - p)) (skipn (N.to_nat p) src).

(* ------------------------------------------------------------ identifiers *)

(* letter = unicode_letter | "_" is [is_letter U]; unicode_digit is
   [is_unicode_digit U] (Tok.v; the Unicode categories are the oracle U)

   identifier = letter { letter | unicode_digit } . *)
Definition Identifier (U : uclass) (w : str) : Prop :=
  match w with
  | [] => False
  | c :: w' =>
      is_letter U c = true /\
      Forall (fun d => is_letter U d = true \/ is_unicode_digit U d = true) w'
  end.

(* what follows a maximal identifier-shaped run: the end of the input or a
   character that is neither a letter nor a digit *)
Definition ident_stop (U : uclass) (rest : str) : Prop :=
  match rest with
  | [] => True
  | c :: _ => is_letter U c = false /\ is_unicode_digit U c = false
  end.

(* ------------------------------------------------------------ tiling *)

(* One element (p, t, e) of the extended token stream: token [t] reported at
   offset [p], scanner at [e] afterwards.

   - a REAL token covers the source text [p, e): that text is [tok_text t], it
     is not empty, so p < e;
   - a SYNTHETIC semicolon (automatic semicolon insertion) consumes nothing
     and sits exactly where the previous token ended. *)
Definition real_tile (src : str) (p : N) (t : token) (e : N) : Prop :=
  tok_text t <> [] /\ e = p + lenN (tok_text t) /\ slice src p e = tok_text t.

Definition synth_tile (start p : N) (t : token) (e : N) : Prop :=
  t = TOperator OSemiColon /\ p = start /\ e = p.

(* [tiling ws src start toks]: from offset [start] on, the elements of [toks]
   appear in source order, each one is a real tile or a synthetic semicolon,
   only [ws] characters lie between the previous end and the next start, and
   nothing reaches beyond the end of the source. *)
Inductive tiling (ws : N -> bool) (src : str) : N -> list (N * token * N) -> Prop :=
| tiling_nil : forall start, tiling ws src start []
| tiling_cons : forall start p t e toks,
    start <= p -> p <= e -> e <= lenN src ->
    Forall (fun c => ws c = true) (slice src start p) ->
    (real_tile src p t e \/ synth_tile start p t e) ->
    tiling ws src e toks ->
    tiling ws src start ((p, t, e) :: toks).

(* where the last element ends ([start] if there is none) *)
Fixpoint tiling_end (start : N) (toks : list (N * token * N)) : N :=
  match toks with
  | [] => start
  | (_, _, e) :: r => tiling_end e r
  end.

(* the source rebuilt from the gaps and the token texts; an element with
   e = p (synthetic) contributes nothing *)
Fixpoint retile (src : str) (start : N) (toks : list (N * token * N)) : str :=
  match toks with
  | [] => []
  | (p, t, e) :: r =>
      slice src start p ++ (if e =? p then [] else tok_text t) ++ retile src e r
  end.

(* offsets of the elements are non-decreasing, strictly increasing across a
   real token *)
Fixpoint offsets_sorted (toks : list (N * token * N)) : Prop :=
  match toks with
  | [] => True
  | (p, t, e) :: r =>
      p <= e /\
      match r with
      | [] => True
      | (p', _, _) :: _ => e <= p'
      end /\ offsets_sorted r
  end.
